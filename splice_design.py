#!/usr/bin/env python3
# Splices design_section0.md into DESIGN.md between the SECTION0 markers (section 0 is kept in its
# own file so that it can be regenerated as the work proceeds).
import re
d=open('/verif/DESIGN.md').read(); sec=open('/verif/design_section0.md').read()
start='<!-- SECTION0 -->'; end='<!-- /SECTION0 -->'
if end in d:
    d=re.sub(re.escape(start)+r'.*?'+re.escape(end), lambda m: start+'\n'+sec+'\n'+end, d, flags=re.S)
else:
    d=d.replace(start, start+'\n'+sec+'\n'+end,1)
open('/verif/DESIGN.md','w').write(d)
