#!/bin/bash
# Confirms a seeded change in a scratch worktree of /repo (never in /repo itself): it applies, builds,
# the existing test suite still passes, and the demonstration test fails. Writes seeded/<id>/meta.json.
# usage: confirm_seeded.sh <id> [<id>...]
cd "$(dirname "$0")"
export GOPROXY=off GOFLAGS=-mod=mod
for id in "$@"; do
  d=$PWD/seeded/$id; prop=${id%%_*}
  wt=/tmp/confirm_$id
  git -C /repo worktree remove --force $wt >/dev/null 2>&1; rm -rf $wt
  git -C /repo worktree add -q --detach $wt HEAD || { echo "$id: worktree failed"; continue; }
  head=$(git -C /repo rev-parse --short HEAD)
  applies=false; builds=false; tests=false; demo_fails=false; demo_out=""
  if git -C $wt apply $d/patch.diff 2>/dev/null; then applies=true; fi
  if $applies; then
    (cd $wt && go build ./... >/dev/null 2>&1) && builds=true
    if $builds; then
      (cd $wt && go test -vet=off -count=1 ./... >/tmp/confirm_$id.log 2>&1) && tests=true
      cp $d/demo_test.go $wt/zz_seeded_demo_test.go
      demo_out=$(cd $wt && go test -vet=off -count=1 -run "$(grep -o 'func Test[A-Za-z0-9_]*' $d/demo_test.go | sed 's/func //' | paste -sd'|')" . 2>&1 | tail -15)
      echo "$demo_out" | grep -q "^--- FAIL\|^FAIL\|panic:" && demo_fails=true
    fi
  fi
  # the demonstration must pass on the unchanged tree
  git -C $wt checkout -q -- . ; cp $d/demo_test.go $wt/zz_seeded_demo_test.go
  base_ok=false
  (cd $wt && go test -vet=off -count=1 -run "$(grep -o 'func Test[A-Za-z0-9_]*' $d/demo_test.go | sed 's/func //' | paste -sd'|')" . >/dev/null 2>&1) && base_ok=true
  git -C /repo worktree remove --force $wt; rm -f /tmp/confirm_$id.log
  python3 - "$id" "$prop" "$head" "$applies" "$builds" "$tests" "$demo_fails" "$base_ok" "$demo_out" <<'P'
import json,sys,os
id,prop,head,applies,builds,tests,demo_fails,base_ok,demo_out=sys.argv[1:10]
d='/verif/seeded/'+id
notes=open(d+'/notes.txt').read() if os.path.exists(d+'/notes.txt') else ''
p=d+'/meta.json'
m=json.load(open(p)) if os.path.exists(p) else {}
m.update({"id":id,"breaks_property":prop,
 "summary":m.get("summary") or " ".join(notes.split('\n')[0:2]).strip(),
 "confirmed_on_repo_head":head,
 "confirmation":{"patch_applies":applies=="true","builds":builds=="true","existing_tests_pass":tests=="true","demonstration_fails_with_change":demo_fails=="true","demonstration_passes_without_change":base_ok=="true",
   "ran":["git worktree add /tmp/confirm_%s HEAD; git apply patch.diff"%id,"go build ./...","go test -vet=off -count=1 ./...","go test -run <demo tests> . (with demo_test.go copied in)"],
   "demonstration_output_tail":demo_out[-1500:]}})
json.dump(m,open(p,'w'),indent=1)
print(id,"applies",applies,"builds",builds,"tests",tests,"demo_fails",demo_fails,"base_ok",base_ok)
P
done
