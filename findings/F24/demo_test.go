package vanguard

import (
	"bytes"
	"io"
	"net/http"
	"net/http/httptest"
	"testing"

	"connectrpc.com/vanguard/internal/gen/vanguard/test/v1/testv1connect"
)

// C09: a client stream that is truncated, or that declares a length the bytes do not honour, never
// surfaces as success, and the backend is never handed a complete-looking message built from it.
// gRPC-Web client -> Connect unary backend (no envelopes on the backend side):
//   - an envelope announcing 8 bytes followed by only 3 is forwarded as a 3-byte body with a clean EOF;
//   - two enveloped messages on a unary method are forwarded concatenated as one body.
func TestF24EnvelopedClientToUnenvelopedBackend(t *testing.T) {
	for _, codec := range []string{CodecProto, CodecJSON} { // same codec: envelopingReader; other: transformingReader
		for name, body := range map[string][]byte{
			"truncated":    {0, 0, 0, 0, 8, 0x0a, 0x01, 'a'},
			"two_messages": {0, 0, 0, 0, 3, 0x0a, 0x01, 'a', 0, 0, 0, 0, 3, 0x0a, 0x01, 'b'},
		} {
			t.Run(codec+"/"+name, func(t *testing.T) {
				var got []byte
				var readErr error
				called := false
				handler := http.HandlerFunc(func(w http.ResponseWriter, r *http.Request) {
					called = true
					got, readErr = io.ReadAll(r.Body)
					if readErr != nil {
						http.Error(w, readErr.Error(), 400)
						return
					}
					w.Header().Set("Content-Type", "application/"+codec)
					w.WriteHeader(200)
					if codec == CodecJSON {
						_, _ = w.Write([]byte("{}"))
					}
				})
				svc := NewService(testv1connect.LibraryServiceName, handler, WithTargetProtocols(ProtocolConnect), WithTargetCodecs(codec))
				tr, err := NewTranscoder([]*Service{svc})
				if err != nil {
					t.Fatal(err)
				}
				req := httptest.NewRequest("POST", "/vanguard.test.v1.LibraryService/GetBook", bytes.NewReader(body))
				req.Header.Set("Content-Type", "application/grpc-web+proto")
				rec := httptest.NewRecorder()
				tr.ServeHTTP(rec, req)
				status := rec.Header().Get("Grpc-Status")
				if status == "" {
					// trailer frame in the body
					if i := bytes.Index(rec.Body.Bytes(), []byte("Grpc-Status: ")); i >= 0 {
						status = string(rec.Body.Bytes()[i+13 : i+14])
					}
				}
				t.Logf("backend called=%v body=%q readErr=%v; client grpc-status=%q", called, got, readErr, status)
				if status == "0" {
					t.Errorf("malformed request stream surfaced as success (backend body %q)", got)
				}
				if called && readErr == nil {
					t.Errorf("backend was handed a complete-looking message %q", got)
				}
			})
		}
	}
}
