package vanguard

import (
	"net/http"
	"net/http/httptest"
	"testing"

	"connectrpc.com/vanguard/internal/gen/vanguard/test/v1/testv1connect"
)

// C11: no client input makes ServeHTTP panic. A REST request whose query-parameter name is a valid
// field path followed by a dot (`?page_token.=x`) made resolvePathToFieldDescriptors return a path
// with a nil last element (it sizes the result by the number of dots and stops at the empty tail);
// setParameter dereferenced it: nil pointer panic through ServeHTTP, default configuration.
func TestF39TrailingDotInQueryParameterName(t *testing.T) {
	handler := http.HandlerFunc(func(w http.ResponseWriter, r *http.Request) {
		w.Header().Set("Content-Type", "application/grpc+proto")
		w.Header().Set("Grpc-Status", "0")
		w.WriteHeader(200)
	})
	svc := NewService(testv1connect.LibraryServiceName, handler)
	tr, err := NewTranscoder([]*Service{svc})
	if err != nil {
		t.Fatal(err)
	}
	for _, target := range []string{
		"/v1/shelves?page_token.=x",
		"/v1/shelves/1/books/2?name.=x",
		"/v1/shelves?.=x",
		"/v1/shelves?page_token..=x",
	} {
		func() {
			defer func() {
				if p := recover(); p != nil {
					t.Errorf("GET %s: ServeHTTP panicked: %v", target, p)
				}
			}()
			req := httptest.NewRequest("GET", target, nil)
			rec := httptest.NewRecorder()
			tr.ServeHTTP(rec, req)
			t.Logf("GET %s: status %d body %q", target, rec.Code, rec.Body.String())
			if rec.Code == 200 {
				t.Errorf("GET %s: malformed field path accepted", target)
			}
		}()
	}
}
