package vanguard

import (
	"bytes"
	"compress/gzip"
	"encoding/binary"
	"net/http"
	"net/http/httptest"
	"strings"
	"testing"

	"connectrpc.com/vanguard/internal/gen/vanguard/test/v1/testv1connect"
)

// Backend speaks gRPC with gzip; it sends one compressed message whose payload gunzips fine but
// is not a valid protobuf. The Connect (JSON) client forces the transforming writer.
func TestF18DanglingBuffer(t *testing.T) {
	var tr *Transcoder
	handler := http.HandlerFunc(func(w http.ResponseWriter, r *http.Request) {
		w.Header().Set("Content-Type", "application/grpc+proto")
		w.Header().Set("Grpc-Encoding", "gzip")
		w.WriteHeader(200)
		var zb bytes.Buffer
		zw := gzip.NewWriter(&zb)
		_, _ = zw.Write([]byte{0xff, 0xff, 0xff, 0xff}) // invalid proto
		_ = zw.Close()
		env := make([]byte, 5)
		env[0] = 1
		binary.BigEndian.PutUint32(env[1:], uint32(zb.Len()))
		_, err := w.Write(append(env, zb.Bytes()...))
		t.Logf("write err: %v", err)
		// another RPC now takes the buffer the writer still points to
		b := tr.bufferPool.Get()
		b.Write(bytes.Repeat([]byte("x"), 4096))
	})
	svc := NewService(testv1connect.LibraryServiceName, handler, WithTargetProtocols(ProtocolGRPC), WithTargetCodecs(CodecProto))
	var err error
	tr, err = NewTranscoder([]*Service{svc})
	if err != nil {
		t.Fatal(err)
	}
	req := httptest.NewRequest("POST", "/vanguard.test.v1.LibraryService/GetBook", strings.NewReader(`{}`))
	req.Header.Set("Content-Type", "application/json")
	req.Header.Set("Connect-Protocol-Version", "1")
	rec := httptest.NewRecorder()
	tr.ServeHTTP(rec, req)
	t.Logf("status %d body %q", rec.Code, rec.Body.String())
}
