package vanguard

import (
	"bytes"
	"net/http"
	"net/http/httptest"
	"testing"

	"connectrpc.com/vanguard/internal/gen/vanguard/test/v1/testv1connect"
)

// C02/C12: "no control header left over ... contradicts them", "a request without a timeout reaches
// the backend without one". A Connect client (which has no timeout and no compression of its own)
// sends headers that happen to be control headers of the backend's protocol. They were forwarded
// verbatim: the gRPC backend saw a 5 second deadline the client never asked for in its own protocol
// and a Grpc-Encoding naming a compression that is not configured and not applied to the body.
func TestF35StrayTargetProtocolHeaders(t *testing.T) {
	var seen http.Header
	handler := http.HandlerFunc(func(w http.ResponseWriter, r *http.Request) {
		seen = r.Header.Clone()
		w.Header().Set("Content-Type", "application/grpc+proto")
		w.Header().Set("Grpc-Status", "0")
		w.WriteHeader(200)
	})
	svc := NewService(testv1connect.LibraryServiceName, handler, WithTargetProtocols(ProtocolGRPC), WithTargetCodecs(CodecProto))
	tr, err := NewTranscoder([]*Service{svc})
	if err != nil {
		t.Fatal(err)
	}
	req := httptest.NewRequest("POST", "/vanguard.test.v1.LibraryService/GetBook", bytes.NewReader([]byte(`{"name":"shelves/1/books/1"}`)))
	req.Header.Set("Content-Type", "application/json")
	req.Header.Set("Connect-Protocol-Version", "1")
	req.Header.Set("Grpc-Timeout", "5S")
	req.Header.Set("Grpc-Encoding", "br")
	req.Header.Set("X-App", "kept")
	rec := httptest.NewRecorder()
	tr.ServeHTTP(rec, req)
	if seen == nil {
		t.Fatalf("backend not reached: status %d body %q", rec.Code, rec.Body.String())
	}
	t.Logf("backend saw Grpc-Timeout=%q Grpc-Encoding=%q X-App=%q", seen.Values("Grpc-Timeout"), seen.Values("Grpc-Encoding"), seen.Values("X-App"))
	if v := seen.Values("Grpc-Timeout"); len(v) != 0 {
		t.Errorf("the client set no timeout in its own protocol, the backend got Grpc-Timeout %q", v)
	}
	if v := seen.Values("Grpc-Encoding"); len(v) != 0 {
		t.Errorf("the request body is not compressed, the backend got Grpc-Encoding %q", v)
	}
	if seen.Get("X-App") != "kept" {
		t.Errorf("application header lost")
	}
}
