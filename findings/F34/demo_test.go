package vanguard

import (
	"bytes"
	"net/http"
	"net/http/httptest"
	"testing"

	"connectrpc.com/vanguard/internal/gen/vanguard/test/v1/testv1connect"
)

// C12: a timeout supplied by the client is conveyed to the backend with a value that never exceeds
// the client's. A Connect client sends Connect-Timeout-Ms: 0 (a deadline that has already expired);
// toward a REST backend the transcoder wrote `X-Server-Timeout:` with an EMPTY value, which every
// reader of that header (including this package's own REST client side) takes as "no timeout":
// the deadline was extended from zero to unbounded.
func TestF34ZeroTimeoutToRESTBackend(t *testing.T) {
	var got []string
	var present bool
	handler := http.HandlerFunc(func(w http.ResponseWriter, r *http.Request) {
		got, present = r.Header["X-Server-Timeout"]
		w.Header().Set("Content-Type", "application/json")
		_, _ = w.Write([]byte(`{}`))
	})
	svc := NewService(testv1connect.LibraryServiceName, handler, WithTargetProtocols(ProtocolREST))
	tr, err := NewTranscoder([]*Service{svc})
	if err != nil {
		t.Fatal(err)
	}
	req := httptest.NewRequest("POST", "/vanguard.test.v1.LibraryService/GetBook", bytes.NewReader([]byte(`{"name":"shelves/1/books/1"}`)))
	req.Header.Set("Content-Type", "application/json")
	req.Header.Set("Connect-Protocol-Version", "1")
	req.Header.Set("Connect-Timeout-Ms", "0")
	rec := httptest.NewRecorder()
	tr.ServeHTTP(rec, req)
	t.Logf("status %d; backend saw X-Server-Timeout present=%v value=%q", rec.Code, present, got)
	if !present || len(got) != 1 || got[0] == "" {
		t.Errorf("client timeout of 0 ms reached the REST backend as %q (present=%v): an empty value means no timeout", got, present)
	}
	if len(got) == 1 && got[0] != "" {
		if d, err := restDecodeTimeout(got[0]); err != nil || d != 0 {
			t.Errorf("backend value %q decodes to %v, %v; want 0", got[0], d, err)
		}
	}
}
