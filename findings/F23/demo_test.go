package vanguard

import (
	"bytes"
	"io"
	"net/http"
	"net/http/httptest"
	"testing"

	"connectrpc.com/vanguard/internal/gen/vanguard/test/v1/testv1connect"
)

// C03: no message data follows the end of the RPC. A gRPC-Web client talks to a Connect unary
// backend with the same codec (envelopingWriter, response buffered to measure it because the
// backend sets no Content-Length). The backend writes part of its response, then reads the request
// body, whose second envelope is malformed: the transcoder ends the RPC with a trailer frame.
// When the handler returns, envelopingWriter.Close still flushes the measured body behind it.
func TestF23NoDataAfterEndFromMeasuredBody(t *testing.T) {
	handler := http.HandlerFunc(func(w http.ResponseWriter, r *http.Request) {
		w.Header().Set("Content-Type", "application/proto")
		w.WriteHeader(200)
		_, _ = w.Write([]byte{0x0a, 0x03, 'a', 'b', 'c'}) // a Book{name:"abc"}
		_, _ = io.Copy(io.Discard, r.Body)                  // hits the malformed second envelope
	})
	svc := NewService(testv1connect.LibraryServiceName, handler, WithTargetProtocols(ProtocolConnect), WithTargetCodecs(CodecProto))
	tr, err := NewTranscoder([]*Service{svc})
	if err != nil {
		t.Fatal(err)
	}
	var body bytes.Buffer
	body.Write([]byte{0, 0, 0, 0, 2, 0x0a, 0x00}) // GetBookRequest{name:""}
	body.Write([]byte{0x7f, 0, 0, 0, 0})          // invalid flags
	req := httptest.NewRequest("POST", "/vanguard.test.v1.LibraryService/GetBook", &body)
	req.Header.Set("Content-Type", "application/grpc-web+proto")
	rec := httptest.NewRecorder()
	tr.ServeHTTP(rec, req)
	out := rec.Body.Bytes()
	t.Logf("status %d body % x", rec.Code, out)
	// walk the gRPC-Web frames: nothing may follow the trailer frame (flag 0x80)
	for i := 0; i+5 <= len(out); {
		flags := out[i]
		n := int(out[i+1])<<24 | int(out[i+2])<<16 | int(out[i+3])<<8 | int(out[i+4])
		i += 5 + n
		if flags&0x80 != 0 && i < len(out) {
			t.Fatalf("%d bytes follow the trailer frame: % x", len(out)-i, out[i:])
		}
	}
}
