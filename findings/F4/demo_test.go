package vanguard

import (
	"bytes"
	"net/http"
	"net/http/httptest"
	"testing"

	"connectrpc.com/vanguard/internal/gen/vanguard/test/v1/testv1connect"
)

// "Grpc-Timeout: 9H" is syntactically valid (it merely exceeds the practical range): the request
// must reach the backend, without a deadline, and not be rejected.
func TestF4LargeGrpcTimeout(t *testing.T) {
	called := false
	handler := http.HandlerFunc(func(w http.ResponseWriter, r *http.Request) {
		called = true
		w.Header().Set("Content-Type", "application/proto")
		w.WriteHeader(200)
	})
	svc := NewService(testv1connect.LibraryServiceName, handler, WithTargetProtocols(ProtocolConnect), WithTargetCodecs(CodecProto))
	tr, err := NewTranscoder([]*Service{svc})
	if err != nil {
		t.Fatal(err)
	}
	req := httptest.NewRequest("POST", "/vanguard.test.v1.LibraryService/GetBook", bytes.NewReader([]byte{0, 0, 0, 0, 0}))
	req.Header.Set("Content-Type", "application/grpc-web+proto")
	req.Header.Set("Grpc-Timeout", "9H")
	rec := httptest.NewRecorder()
	tr.ServeHTTP(rec, req)
	if !called {
		t.Fatalf("valid Grpc-Timeout 9H rejected: status %d body %q", rec.Code, rec.Body.String())
	}
}
