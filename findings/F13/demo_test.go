package vanguard

import (
	"bytes"
	"net/http"
	"net/http/httptest"
	"testing"

	"connectrpc.com/vanguard/internal/gen/vanguard/test/v1/testv1connect"
)

// gRPC-Web client, Connect unary JSON backend. The backend writes one complete message and then
// overruns the message buffer limit. The client must not see message data after the end frame.
func TestF13MessageAfterEnd(t *testing.T) {
	handler := http.HandlerFunc(func(w http.ResponseWriter, r *http.Request) {
		w.Header().Set("Content-Type", "application/json")
		w.WriteHeader(200)
		_, _ = w.Write([]byte(`{}`))
		_, err := w.Write(bytes.Repeat([]byte(" "), 100))
		t.Logf("second write: %v", err)
	})
	svc := NewService(testv1connect.LibraryServiceName, handler, WithTargetProtocols(ProtocolConnect), WithTargetCodecs(CodecJSON), WithMaxMessageBufferBytes(50))
	tr, err := NewTranscoder([]*Service{svc})
	if err != nil {
		t.Fatal(err)
	}
	body := []byte{0, 0, 0, 0, 0}
	req := httptest.NewRequest("POST", "/vanguard.test.v1.LibraryService/GetBook", bytes.NewReader(body))
	req.Header.Set("Content-Type", "application/grpc-web+proto")
	rec := httptest.NewRecorder()
	tr.ServeHTTP(rec, req)
	out := rec.Body.Bytes()
	t.Logf("body % x", out)
	// walk the frames
	sawEnd := false
	for len(out) >= 5 {
		flag := out[0]
		n := int(out[1])<<24 | int(out[2])<<16 | int(out[3])<<8 | int(out[4])
		if sawEnd {
			t.Fatalf("frame with flag %#x follows the end-of-stream frame", flag)
		}
		if flag&0x80 != 0 {
			sawEnd = true
		}
		out = out[5+n:]
	}
	if !sawEnd {
		t.Fatalf("no end frame")
	}
}
