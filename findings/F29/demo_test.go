package vanguard

import (
	"io"
	"net/http"
	"net/http/httptest"
	"net/url"
	"strings"
	"testing"

	"connectrpc.com/vanguard/internal/gen/vanguard/test/v1/testv1connect"
)

// C06: the variable values handed to the method are exactly the template's captures. A query
// parameter with the name of a field that the path template binds overrides the captured value:
// GET /v1/shelves/1/books/2?name=zzz is dispatched with name="zzz".
func TestF29QueryParameterMustNotOverridePathCapture(t *testing.T) {
	var got string
	handler := http.HandlerFunc(func(w http.ResponseWriter, r *http.Request) {
		body, _ := io.ReadAll(r.Body)
		q, _ := url.QueryUnescape(r.URL.RawQuery)
		got = string(body) + " " + q
		w.Header().Set("Content-Type", "application/json")
		w.WriteHeader(200)
		_, _ = w.Write([]byte("{}"))
	})
	svc := NewService(testv1connect.LibraryServiceName, handler, WithTargetProtocols(ProtocolConnect), WithTargetCodecs(CodecJSON))
	tr, err := NewTranscoder([]*Service{svc})
	if err != nil {
		t.Fatal(err)
	}
	req := httptest.NewRequest("GET", "/v1/shelves/1/books/2?name=zzz", nil)
	rec := httptest.NewRecorder()
	tr.ServeHTTP(rec, req)
	t.Logf("status %d, backend received %s", rec.Code, got)
	if rec.Code == 200 && !strings.Contains(got, `"name":"shelves/1/books/2"`) {
		t.Errorf("backend received %s, want name=shelves/1/books/2 (the path capture)", got)
	}
}
