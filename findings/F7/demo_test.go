package vanguard

import (
	"io"
	"net/http"
	"net/http/httptest"
	"net/url"
	"strings"
	"testing"

	"connectrpc.com/vanguard/internal/gen/vanguard/test/v1/testv1connect"
)

// C06: a path template is matched against the request's raw (still percent-encoded) path and the
// captured variable is percent-decoded exactly once. resolveMethod hands the trie URL.Path, which
// net/http has already decoded: "%2F" inside a single-segment variable becomes a segment separator
// (404), and "%2541" is decoded twice ("A" instead of "%41").
func TestF7RESTRoutingUsesRawPath(t *testing.T) {
	var got string
	handler := http.HandlerFunc(func(w http.ResponseWriter, r *http.Request) {
		body, _ := io.ReadAll(r.Body)
		q, _ := url.QueryUnescape(r.URL.RawQuery)
		got = string(body) + " " + q
		w.Header().Set("Content-Type", "application/json")
		w.WriteHeader(200)
		_, _ = w.Write([]byte("{}"))
	})
	svc := NewService(testv1connect.LibraryServiceName, handler, WithTargetProtocols(ProtocolConnect), WithTargetCodecs(CodecJSON))
	tr, err := NewTranscoder([]*Service{svc})
	if err != nil {
		t.Fatal(err)
	}
	for _, tc := range []struct{ path, wantID string }{
		{"/v1/shelves/1/books/2", "shelves/1/books/2"},
		{"/v1/shelves/a%2541/books/2", "shelves/a%41/books/2"}, // exactly one level of decoding
		{"/v1/shelves/x%2Fy/books/2", "shelves/x%2Fy/books/2"}, // %2F stays encoded in a multi-segment capture
	} {
		got = ""
		req := httptest.NewRequest("GET", tc.path, nil)
		rec := httptest.NewRecorder()
		tr.ServeHTTP(rec, req)
		if rec.Code != 200 {
			t.Errorf("%s: status %d body %q", tc.path, rec.Code, rec.Body.String())
			continue
		}
		if !strings.Contains(got, tc.wantID) {
			t.Errorf("%s: backend received %s, want id %q", tc.path, got, tc.wantID)
		}
	}
}
