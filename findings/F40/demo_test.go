package vanguard

import (
	"bytes"
	"encoding/binary"
	"net/http"
	"net/http/httptest"
	"strings"
	"testing"

	"connectrpc.com/vanguard/internal/gen/vanguard/test/v1/testv1connect"
)

// C03: each RPC ends with exactly one terminal disposition in the place the client's protocol defines.
// For Connect streaming that place is the end-of-stream frame. When the frame's JSON (error message,
// metadata) was larger than the message limit, the frame was silently omitted: the client received
// 200, no end-of-stream frame at all, and neither success nor the error.
func TestF40OversizedConnectEndOfStream(t *testing.T) {
	handler := http.HandlerFunc(func(w http.ResponseWriter, r *http.Request) {
		w.Header().Set("Content-Type", "application/grpc+proto")
		w.Header().Set("Grpc-Status", "5")
		w.Header().Set("Grpc-Message", strings.Repeat("x", 600))
		w.WriteHeader(200)
	})
	svc := NewService(testv1connect.ContentServiceName, handler, WithTargetProtocols(ProtocolGRPC), WithTargetCodecs(CodecProto), WithMaxMessageBufferBytes(512))
	tr, err := NewTranscoder([]*Service{svc})
	if err != nil {
		t.Fatal(err)
	}
	frame := make([]byte, 5)
	req := httptest.NewRequest("POST", "/vanguard.test.v1.ContentService/Download", bytes.NewReader(frame))
	req.Header.Set("Content-Type", "application/connect+proto")
	rec := httptest.NewRecorder()
	tr.ServeHTTP(rec, req)
	body := rec.Body.Bytes()
	t.Logf("status %d body %q", rec.Code, body)
	// walk the frames: the last one must be an end-of-stream frame (flag bit 0x02)
	sawEnd := false
	for len(body) >= 5 {
		n := int(binary.BigEndian.Uint32(body[1:5]))
		if len(body) < 5+n {
			t.Fatalf("truncated frame")
		}
		if body[0]&2 != 0 {
			sawEnd = true
			if !bytes.Contains(body[5:5+n], []byte(`"error"`)) {
				t.Errorf("end-of-stream frame reports no error although the backend failed: %q", body[5:5+n])
			}
		}
		body = body[5+n:]
	}
	if !sawEnd {
		t.Errorf("Connect streaming response has no end-of-stream frame: the RPC has no outcome")
	}
}
