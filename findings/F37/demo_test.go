package vanguard

import (
	"bytes"
	"net/http"
	"net/http/httptest"
	"testing"

	"connectrpc.com/vanguard/internal/gen/vanguard/test/v1/testv1connect"
)

// C06: a request is dispatched to a method only if a binding matches the request's raw (still
// percent-encoded) path; RPC-style paths /<service>/<method> resolve to exactly that method. The
// RPC-style lookup used the decoded URL.Path: a request line whose raw path has no second '/' at all
// (`/vanguard.test.v1.LibraryService%2FGetBook`) or spells the service differently (`/%76anguard...`)
// was dispatched to GetBook. (REST routes are matched against the raw path since fix F7.)
func TestF37RPCPathMatchedRaw(t *testing.T) {
	calls := 0
	handler := http.HandlerFunc(func(w http.ResponseWriter, r *http.Request) {
		calls++
		w.Header().Set("Content-Type", "application/json")
		_, _ = w.Write([]byte(`{}`))
	})
	svc := NewService(testv1connect.LibraryServiceName, handler, WithTargetProtocols(ProtocolGRPC))
	tr, err := NewTranscoder([]*Service{svc})
	if err != nil {
		t.Fatal(err)
	}
	for _, target := range []string{
		"/vanguard.test.v1.LibraryService%2FGetBook",
		"/%76anguard.test.v1.LibraryService/GetBook",
	} {
		calls = 0
		req := httptest.NewRequest("POST", target, bytes.NewReader([]byte(`{}`)))
		req.Header.Set("Content-Type", "application/json")
		req.Header.Set("Connect-Protocol-Version", "1")
		rec := httptest.NewRecorder()
		tr.ServeHTTP(rec, req)
		t.Logf("%s: status %d, handler calls %d", target, rec.Code, calls)
		if calls != 0 || rec.Code != http.StatusNotFound {
			t.Errorf("%s: raw path is not /<service>/<method>, yet status %d and %d handler calls (want 404, 0)", target, rec.Code, calls)
		}
	}
	// the plain spelling still resolves
	req := httptest.NewRequest("POST", "/vanguard.test.v1.LibraryService/GetBook", bytes.NewReader([]byte(`{}`)))
	req.Header.Set("Content-Type", "application/json")
	req.Header.Set("Connect-Protocol-Version", "1")
	rec := httptest.NewRecorder()
	calls = 0
	tr.ServeHTTP(rec, req)
	if calls != 1 {
		t.Errorf("plain RPC path not dispatched: status %d", rec.Code)
	}
}
