package vanguard

import (
	"bytes"
	"io"
	"net/http"
	"net/http/httptest"
	"testing"

	"connectrpc.com/vanguard/internal/gen/vanguard/test/v1/testv1connect"
)

// Connect unary client (no envelopes, unknown content length) -> gRPC backend, same codec.
// The limit is 10 bytes; an 11-byte message must be refused with resource_exhausted.
func TestF11LimitPlusOne(t *testing.T) {
	var gotLen = -1
	handler := http.HandlerFunc(func(w http.ResponseWriter, r *http.Request) {
		b, _ := io.ReadAll(r.Body)
		gotLen = len(b)
		w.Header().Set("Content-Type", "application/grpc+proto")
		w.Header().Set("Grpc-Status", "0")
		w.WriteHeader(200)
	})
	svc := NewService(testv1connect.LibraryServiceName, handler, WithTargetProtocols(ProtocolGRPC), WithTargetCodecs(CodecProto), WithMaxMessageBufferBytes(10))
	tr, err := NewTranscoder([]*Service{svc})
	if err != nil {
		t.Fatal(err)
	}
	body := bytes.Repeat([]byte{0}, 11)
	req := httptest.NewRequest("POST", "/vanguard.test.v1.LibraryService/GetBook", io.NopCloser(io.MultiReader(bytes.NewReader(body))))
	req.ContentLength = -1
	req.Header.Set("Content-Type", "application/proto")
	req.Header.Set("Connect-Protocol-Version", "1")
	rec := httptest.NewRecorder()
	tr.ServeHTTP(rec, req)
	t.Logf("backend read %d bytes; status %d body %q", gotLen, rec.Code, rec.Body.String())
	if gotLen >= 5+11 {
		t.Fatalf("an 11-byte message was delivered to the backend although the limit is 10")
	}
}
