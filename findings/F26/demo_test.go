package vanguard

import (
	"bytes"
	"net/http"
	"net/http/httptest"
	"strings"
	"testing"

	"connectrpc.com/vanguard/internal/gen/vanguard/test/v1/testv1connect"
)

// C04: when the backend fails with a bare HTTP status the client observes the RPC code the published
// HTTP->RPC mapping assigns - never success. A REST or Connect unary backend answering 503 with a
// JSON body that carries no error code ("{}") is reported to a gRPC-Web client as grpc-status 0.
func TestF26Non2xxWithoutCodeIsNotSuccess(t *testing.T) {
	for _, tc := range []struct {
		name     string
		protocol Protocol
		codec    string
		body     string
		ctype    string
	}{
		{"connect_message_only", ProtocolConnect, CodecProto, `{"message":"overloaded"}`, "application/json"},
		{"connect_plain_text", ProtocolConnect, CodecProto, "nope", "text/plain"},
	} {
		t.Run(tc.name, func(t *testing.T) {
			handler := http.HandlerFunc(func(w http.ResponseWriter, r *http.Request) {
				w.Header().Set("Content-Type", tc.ctype)
				w.WriteHeader(http.StatusServiceUnavailable)
				_, _ = w.Write([]byte(tc.body))
			})
			svc := NewService(testv1connect.LibraryServiceName, handler, WithTargetProtocols(tc.protocol), WithTargetCodecs(tc.codec))
			tr, err := NewTranscoder([]*Service{svc})
			if err != nil {
				t.Fatal(err)
			}
			req := httptest.NewRequest("POST", "/vanguard.test.v1.LibraryService/GetBook", bytes.NewReader([]byte{0, 0, 0, 0, 0}))
			req.Header.Set("Content-Type", "application/grpc-web+proto")
			rec := httptest.NewRecorder()
			tr.ServeHTTP(rec, req)
			status := rec.Header().Get("Grpc-Status")
			if status == "" {
				if i := strings.Index(rec.Body.String(), "Grpc-Status: "); i >= 0 {
					status = strings.SplitN(rec.Body.String()[i+13:], "\r\n", 2)[0]
				}
			}
			t.Logf("backend 503 %q -> client grpc-status %q", tc.body, status)
			if status != "14" { // 503 -> unavailable
				t.Errorf("client observed grpc-status %q for a 503 backend response, want 14 (unavailable)", status)
			}
		})
	}
}

// The REST side of the same defect, at the function that turns a REST error body into an RPC error.
func TestF26RESTErrorBodyWithoutCode(t *testing.T) {
	for _, body := range []string{"{}", `{"message":"down"}`, `{"code":0,"message":"x"}`} {
		err := httpErrorFromResponse(http.StatusServiceUnavailable, "application/json", bytes.NewBufferString(body))
		if err == nil || err.Code() == 0 {
			t.Errorf("503 with body %s became %v (code 0 is success)", body, err)
		} else if got := err.Code().String(); got != "unavailable" {
			t.Errorf("503 with body %s: code %s, want unavailable", body, got)
		}
	}
}
