package vanguard

import (
	"net/http"
	"testing"
)

// Connect-Timeout-Ms is at most 10 ASCII digits. Signs and longer values are malformed.
func TestF5bConnectTimeoutSyntax(t *testing.T) {
	for _, v := range []string{"+5", "-0", "00000000001", "12345678901"} {
		h := http.Header{"Connect-Timeout-Ms": []string{v}}
		var meta requestMeta
		if err := connectExtractTimeout(h, &meta); err == nil {
			t.Errorf("malformed Connect-Timeout-Ms %q accepted as %v", v, meta.timeout)
		}
	}
	for _, v := range []string{"0", "5", "9999999999"} {
		h := http.Header{"Connect-Timeout-Ms": []string{v}}
		var meta requestMeta
		if err := connectExtractTimeout(h, &meta); err != nil || !meta.hasTimeout {
			t.Errorf("valid Connect-Timeout-Ms %q rejected: %v", v, err)
		}
	}
}
