package vanguard

import (
	"bytes"
	"io"
	"net/http"
	"net/http/httptest"
	"strings"
	"testing"

	"connectrpc.com/vanguard/internal/gen/vanguard/test/v1/testv1connect"
)

// C10: the message buffer limit counts the re-encoded size on every path. A gRPC-Web proto request of
// 603 bytes re-encodes to about 3.6 KiB of JSON; with a 1 KiB limit it is rejected when the backend is
// gRPC (enveloped) but delivered when the backend is Connect unary (no envelopes), because
// prepareMessage returned before its size check.
func TestF30ReencodedRequestSizeLimitWithoutEnvelopes(t *testing.T) {
	var got int
	handler := http.HandlerFunc(func(w http.ResponseWriter, r *http.Request) {
		body, _ := io.ReadAll(r.Body)
		got = len(body)
		w.Header().Set("Content-Type", "application/json")
		w.WriteHeader(200)
		_, _ = w.Write([]byte("{}"))
	})
	svc := NewService(testv1connect.LibraryServiceName, handler,
		WithTargetProtocols(ProtocolConnect), WithTargetCodecs(CodecJSON), WithMaxMessageBufferBytes(1024))
	tr, err := NewTranscoder([]*Service{svc})
	if err != nil {
		t.Fatal(err)
	}
	name := strings.Repeat("\x01", 600)
	msg := append([]byte{0x0a, 0xd8, 0x04}, name...) // GetBookRequest{name: 600 x 0x01}
	body := append([]byte{0, 0, 0, byte(len(msg) >> 8), byte(len(msg))}, msg...)
	req := httptest.NewRequest("POST", "/vanguard.test.v1.LibraryService/GetBook", bytes.NewReader(body))
	req.Header.Set("Content-Type", "application/grpc-web+proto")
	rec := httptest.NewRecorder()
	tr.ServeHTTP(rec, req)
	t.Logf("backend received %d bytes; response %q", got, rec.Body.String())
	if got > 1024 {
		t.Errorf("backend received a %d byte message with a 1024 byte limit", got)
	}
}
