package vanguard

import (
	"bytes"
	"net/http"
	"net/http/httptest"
	"testing"

	"connectrpc.com/vanguard/internal/gen/vanguard/test/v1/testv1connect"
)

// C13: pass-through and unknown-endpoint requests are forwarded untouched, including the declared
// content length. validate() overwrites request.ContentLength with -1 before the decision is known.
func TestF2ContentLengthForwarded(t *testing.T) {
	var seen int64 = -2
	handler := http.HandlerFunc(func(w http.ResponseWriter, r *http.Request) {
		seen = r.ContentLength
		w.WriteHeader(200)
	})
	svc := NewService(testv1connect.LibraryServiceName, handler, WithTargetProtocols(ProtocolConnect), WithTargetCodecs(CodecProto))
	tr, err := NewTranscoder([]*Service{svc}, WithUnknownHandler(handler))
	if err != nil {
		t.Fatal(err)
	}
	body := []byte("hello")
	// unknown endpoint
	req := httptest.NewRequest("POST", "/no.such.Service/Method", bytes.NewReader(body))
	req.Header.Set("Content-Type", "application/proto")
	tr.ServeHTTP(httptest.NewRecorder(), req)
	if seen != int64(len(body)) {
		t.Errorf("unknown handler saw ContentLength %d, client declared %d", seen, len(body))
	}
	// pass-through (Connect unary proto to a Connect/proto backend)
	seen = -2
	req = httptest.NewRequest("POST", "/vanguard.test.v1.LibraryService/GetBook", bytes.NewReader(body))
	req.Header.Set("Content-Type", "application/proto")
	req.Header.Set("Connect-Protocol-Version", "1")
	tr.ServeHTTP(httptest.NewRecorder(), req)
	if seen != int64(len(body)) {
		t.Errorf("pass-through handler saw ContentLength %d, client declared %d", seen, len(body))
	}
}
