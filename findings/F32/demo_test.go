package vanguard

import (
	"bytes"
	"io"
	"net/http"
	"net/http/httptest"
	"testing"

	"connectrpc.com/vanguard/internal/gen/vanguard/test/v1/testv1connect"
)

// C11: the response is one a standard HTTP stack can frame. The backend sets Content-Length on its
// response headers, then reads the (malformed) request body; the transcoder reports the request error
// itself, but the backend's Content-Length is still in the shared header map: the client is told
// "Content-Length: 3" for a body of a different size (net/http clients fail with unexpected EOF).
func TestF32BackendContentLengthDoesNotLeakIntoErrorResponse(t *testing.T) {
	handler := http.HandlerFunc(func(w http.ResponseWriter, r *http.Request) {
		w.Header().Set("Content-Type", "application/grpc+proto")
		w.Header().Set("Content-Length", "3")
		_, _ = io.Copy(io.Discard, r.Body) // malformed envelope: the transcoder ends the RPC
	})
	svc := NewService(testv1connect.LibraryServiceName, handler, WithTargetProtocols(ProtocolGRPC), WithTargetCodecs(CodecProto))
	tr, err := NewTranscoder([]*Service{svc})
	if err != nil {
		t.Fatal(err)
	}
	req := httptest.NewRequest("POST", "/vanguard.test.v1.LibraryService/GetBook", bytes.NewReader([]byte{0x7e, 0, 0, 0, 0}))
	req.Header.Set("Content-Type", "application/grpc-web+proto")
	rec := httptest.NewRecorder()
	tr.ServeHTTP(rec, req)
	cl := rec.Header().Get("Content-Length")
	t.Logf("status %d Content-Length %q body %d bytes", rec.Code, cl, rec.Body.Len())
	if cl != "" && cl != "0" && cl != itoa(rec.Body.Len()) {
		t.Errorf("response declares Content-Length %s but carries %d body bytes", cl, rec.Body.Len())
	}
}

func itoa(n int) string {
	if n == 0 {
		return "0"
	}
	var b []byte
	for n > 0 {
		b = append([]byte{byte('0' + n%10)}, b...)
		n /= 10
	}
	return string(b)
}
