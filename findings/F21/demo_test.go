package vanguard

import (
	"bytes"
	"io"
	"net/http"
	"net/http/httptest"
	"testing"

	"connectrpc.com/vanguard/internal/gen/vanguard/test/v1/testv1connect"
)

func frame(payload string) []byte {
	return append([]byte{0, 0, 0, 0, byte(len(payload))}, payload...)
}

// A zero-length message in the middle of a client stream must not end the stream for the backend.
func TestF21ZeroLengthMessage(t *testing.T) {
	for _, tc := range []struct {
		name, clientCT, serverCodec string
		body, want                  []byte
	}{
		{"reframe_only", "application/grpc-web+proto", CodecProto,
			bytes.Join([][]byte{frame("\x0a\x01a"), frame(""), frame("\x0a\x01b")}, nil),
			bytes.Join([][]byte{frame("\x0a\x01a"), frame(""), frame("\x0a\x01b")}, nil)},
		{"reencode", "application/grpc-web+json", CodecProto,
			bytes.Join([][]byte{frame(`{"filename":"a"}`), frame(`{}`), frame(`{"filename":"b"}`)}, nil),
			bytes.Join([][]byte{frame("\x0a\x01a"), frame(""), frame("\x0a\x01b")}, nil)},
	} {
		t.Run(tc.name, func(t *testing.T) {
			var got []byte
			handler := http.HandlerFunc(func(w http.ResponseWriter, r *http.Request) {
				got, _ = io.ReadAll(r.Body)
				w.Header().Set("Content-Type", "application/grpc+proto")
				w.Header().Set("Grpc-Status", "0")
				w.WriteHeader(200)
			})
			svc := NewService(testv1connect.ContentServiceName, handler, WithTargetProtocols(ProtocolGRPC), WithTargetCodecs(tc.serverCodec))
			tr, err := NewTranscoder([]*Service{svc})
			if err != nil {
				t.Fatal(err)
			}
			req := httptest.NewRequest("POST", "/vanguard.test.v1.ContentService/Upload", bytes.NewReader(tc.body))
			req.Header.Set("Content-Type", tc.clientCT)
			rec := httptest.NewRecorder()
			tr.ServeHTTP(rec, req)
			if !bytes.Equal(got, tc.want) {
				t.Fatalf("backend read % x\nwant          % x", got, tc.want)
			}
		})
	}
}
