package vanguard

import (
	"bytes"
	"compress/gzip"
	"encoding/binary"
	"io"
	"net/http"
	"net/http/httptest"
	"testing"

	"connectrpc.com/vanguard/internal/gen/vanguard/test/v1/testv1connect"
)

func f38Frame(flag byte, payload []byte) []byte {
	out := make([]byte, 5, 5+len(payload))
	out[0] = flag
	binary.BigEndian.PutUint32(out[1:], uint32(len(payload)))
	return append(out, payload...)
}

// C03: "declared compression (header and per-message flag) that matches the bytes". A gRPC backend may
// declare Grpc-Encoding: gzip and still send an individual message uncompressed (flag 0; grpc and
// connect-go do this for small messages). A Connect unary client has no per-message flag: it was sent
// `Content-Encoding: gzip` in front of the plain bytes and fails with "gzip: invalid header".
func TestF38UncompressedMessageOnCompressedStreamToUnaryClient(t *testing.T) {
	msg := append([]byte{0x0a, 0x11}, "shelves/1/books/1"...)
	handler := http.HandlerFunc(func(w http.ResponseWriter, r *http.Request) {
		_, _ = io.Copy(io.Discard, r.Body)
		w.Header().Set("Content-Type", "application/grpc+proto")
		w.Header().Set("Grpc-Encoding", "gzip")
		w.Header().Set("Trailer", "Grpc-Status")
		w.WriteHeader(200)
		_, _ = w.Write(f38Frame(0, msg)) // flag 0: this message is not compressed
		w.Header().Set("Grpc-Status", "0")
	})
	svc := NewService(testv1connect.LibraryServiceName, handler, WithTargetProtocols(ProtocolGRPC), WithTargetCodecs(CodecProto))
	tr, err := NewTranscoder([]*Service{svc})
	if err != nil {
		t.Fatal(err)
	}
	for _, ct := range []string{"application/proto", "application/json"} {
		body := msg
		if ct == "application/json" {
			body = []byte(`{"name":"shelves/1/books/1"}`)
		}
		req := httptest.NewRequest("POST", "/vanguard.test.v1.LibraryService/GetBook", bytes.NewReader(body))
		req.Header.Set("Content-Type", ct)
		req.Header.Set("Connect-Protocol-Version", "1")
		req.Header.Set("Accept-Encoding", "gzip")
		rec := httptest.NewRecorder()
		tr.ServeHTTP(rec, req)
		enc := rec.Header().Get("Content-Encoding")
		t.Logf("%s: status %d Content-Encoding %q body %q", ct, rec.Code, enc, rec.Body.String())
		if rec.Code != 200 {
			t.Errorf("%s: status %d", ct, rec.Code)
			continue
		}
		got := rec.Body.Bytes()
		if enc == "gzip" {
			zr, err := gzip.NewReader(bytes.NewReader(got))
			if err != nil {
				t.Errorf("%s: response declares Content-Encoding gzip but the body is not gzip: %v", ct, err)
				continue
			}
			got, _ = io.ReadAll(zr)
		}
		if ct == "application/proto" && !bytes.Equal(got, msg) {
			t.Errorf("%s: body decodes to %q, want %q", ct, got, msg)
		}
		if ct == "application/json" && !bytes.Contains(got, []byte(`"shelves/1/books/1"`)) {
			t.Errorf("%s: body decodes to %q", ct, got)
		}
	}
}

// Request side (C02: "declared compression agree[s] ... with the bytes actually in the body"): a gRPC
// client declares Grpc-Encoding: gzip and sends its message with flag 0. A Connect unary backend was
// handed `Content-Encoding: gzip` in front of the plain bytes.
func TestF38UncompressedMessageOnCompressedStreamToUnaryBackend(t *testing.T) {
	msg := append([]byte{0x0a, 0x11}, "shelves/1/books/1"...)
	for _, codec := range []string{CodecProto, CodecJSON} {
		var enc string
		var body []byte
		handler := http.HandlerFunc(func(w http.ResponseWriter, r *http.Request) {
			enc = r.Header.Get("Content-Encoding")
			body, _ = io.ReadAll(r.Body)
			w.Header().Set("Content-Type", "application/"+codec)
			_, _ = w.Write([]byte{})
		})
		svc := NewService(testv1connect.LibraryServiceName, handler, WithTargetProtocols(ProtocolConnect), WithTargetCodecs(codec))
		tr, err := NewTranscoder([]*Service{svc})
		if err != nil {
			t.Fatal(err)
		}
		req := httptest.NewRequest("POST", "/vanguard.test.v1.LibraryService/GetBook", bytes.NewReader(f38Frame(0, msg)))
		req.ProtoMajor, req.ProtoMinor, req.Proto = 2, 0, "HTTP/2.0"
		req.Header.Set("Content-Type", "application/grpc+proto")
		req.Header.Set("Grpc-Encoding", "gzip")
		req.Header.Set("Te", "trailers")
		rec := httptest.NewRecorder()
		tr.ServeHTTP(rec, req)
		t.Logf("%s backend saw Content-Encoding %q body %q", codec, enc, body)
		got := body
		if enc == "gzip" {
			zr, err := gzip.NewReader(bytes.NewReader(body))
			if err != nil {
				t.Errorf("%s: backend request declares Content-Encoding gzip but the body is not gzip: %v", codec, err)
				continue
			}
			got, _ = io.ReadAll(zr)
		}
		if codec == CodecProto && !bytes.Equal(got, msg) {
			t.Errorf("%s: backend body decodes to %q, want %q", codec, got, msg)
		}
		if codec == CodecJSON && !bytes.Contains(got, []byte(`shelves/1/books/1`)) {
			t.Errorf("%s: backend body decodes to %q", codec, got)
		}
	}
}
