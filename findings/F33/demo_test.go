package vanguard

import (
	"bytes"
	"encoding/binary"
	"net/http"
	"net/http/httptest"
	"testing"

	"connectrpc.com/vanguard/internal/gen/vanguard/test/v1/testv1connect"
)

func f33Frame(flag byte, payload []byte) []byte {
	out := make([]byte, 5, 5+len(payload))
	out[0] = flag
	binary.BigEndian.PutUint32(out[1:], uint32(len(payload)))
	return append(out, payload...)
}

// C01/C09: a gRPC backend that answers a unary method with TWO response messages. A Connect unary
// client has no envelopes, so both messages were written into one body: the client receives their
// concatenation (for protobuf: a merge of both; for JSON: invalid JSON) as a successful result.
func f33Run(t *testing.T, clientCT string, body []byte) *httptest.ResponseRecorder {
	t.Helper()
	handler := http.HandlerFunc(func(w http.ResponseWriter, r *http.Request) {
		w.Header().Set("Content-Type", "application/grpc+proto")
		w.Header().Set("Trailer", "Grpc-Status")
		w.WriteHeader(200)
		// Book{name: "shelves/1/books/1"} and Book{name: "shelves/2/books/2"}
		_, _ = w.Write(f33Frame(0, append([]byte{0x0a, 0x11}, "shelves/1/books/1"...)))
		_, _ = w.Write(f33Frame(0, append([]byte{0x0a, 0x11}, "shelves/2/books/2"...)))
		w.Header().Set("Grpc-Status", "0")
	})
	svc := NewService(testv1connect.LibraryServiceName, handler, WithTargetProtocols(ProtocolGRPC), WithTargetCodecs(CodecProto))
	tr, err := NewTranscoder([]*Service{svc})
	if err != nil {
		t.Fatal(err)
	}
	req := httptest.NewRequest("POST", "/vanguard.test.v1.LibraryService/GetBook", bytes.NewReader(body))
	req.Header.Set("Content-Type", clientCT)
	req.Header.Set("Connect-Protocol-Version", "1")
	rec := httptest.NewRecorder()
	tr.ServeHTTP(rec, req)
	t.Logf("status %d content-type %q body %q", rec.Code, rec.Header().Get("Content-Type"), rec.Body.String())
	return rec
}

func TestF33SecondResponseMessageUnaryClientReencoded(t *testing.T) {
	rec := f33Run(t, "application/json", []byte(`{"name":"shelves/1/books/1"}`))
	if rec.Code == 200 {
		t.Errorf("two response messages for a unary method were delivered as one successful body: %q", rec.Body.String())
	}
}

func TestF33SecondResponseMessageUnaryClientSameCodec(t *testing.T) {
	rec := f33Run(t, "application/proto", append([]byte{0x0a, 0x11}, "shelves/1/books/1"...))
	if rec.Code == 200 {
		t.Errorf("two response messages for a unary method were delivered as one successful body: %q", rec.Body.String())
	}
}
