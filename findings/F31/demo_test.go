package vanguard

import (
	"bytes"
	"net/http"
	"net/http/httptest"
	"testing"

	"connectrpc.com/vanguard/internal/gen/vanguard/test/v1/testv1connect"
)

// C09: a backend response that declares a Content-Length its bytes do not honour never surfaces as
// success. Connect unary JSON client, Connect unary proto backend (different codec: the response goes
// through transformingWriter, whole body buffered): the backend declares 48 bytes, writes 19 (a valid
// prefix of the message) and returns. The client gets 200 with the partial message.
func TestF31TruncatedUnenvelopedResponseBody(t *testing.T) {
	handler := http.HandlerFunc(func(w http.ResponseWriter, r *http.Request) {
		w.Header().Set("Content-Type", "application/proto")
		w.Header().Set("Content-Length", "48")
		w.WriteHeader(200)
		// Book{name: "shelves/1/books/1"}: 19 bytes, a complete field, then nothing more
		_, _ = w.Write(append([]byte{0x0a, 0x11}, "shelves/1/books/1"...))
	})
	svc := NewService(testv1connect.LibraryServiceName, handler, WithTargetProtocols(ProtocolConnect), WithTargetCodecs(CodecProto))
	tr, err := NewTranscoder([]*Service{svc})
	if err != nil {
		t.Fatal(err)
	}
	req := httptest.NewRequest("POST", "/vanguard.test.v1.LibraryService/GetBook", bytes.NewReader([]byte(`{"name":"shelves/1/books/1"}`)))
	req.Header.Set("Content-Type", "application/json")
	req.Header.Set("Connect-Protocol-Version", "1")
	rec := httptest.NewRecorder()
	tr.ServeHTTP(rec, req)
	t.Logf("status %d body %q", rec.Code, rec.Body.String())
	if rec.Code == 200 {
		t.Errorf("a response 29 bytes short of its declared Content-Length was reported as success: %q", rec.Body.String())
	}
}
