package vanguard

import (
	"bytes"
	"net/http"
	"net/http/httptest"
	"testing"

	"connectrpc.com/vanguard/internal/gen/vanguard/test/v1/testv1connect"
)

// C05: trailers set by the handler reach the client however the backend's protocol carried them.
//  (a) gRPC backend answering non-200 with Grpc-Status in the headers and a "Trailer:"-prefixed key:
//      grpcExtractResponseMeta extracts the trailers twice; the second (empty) result overwrites the first.
//  (b) REST backend setting HTTP trailers: restServerProtocol.extractEndFromTrailers drops them.
func TestF27TrailersReachTheClient(t *testing.T) {
	t.Run("grpc_non200_trailers_only", func(t *testing.T) {
		handler := http.HandlerFunc(func(w http.ResponseWriter, r *http.Request) {
			w.Header().Set("Content-Type", "application/grpc+proto")
			w.Header().Set("Grpc-Status", "7")
			w.Header().Set("Grpc-Message", "no")
			w.Header().Set(http.TrailerPrefix+"X-Prefixed", "p")
			w.WriteHeader(http.StatusForbidden)
		})
		svc := NewService(testv1connect.LibraryServiceName, handler, WithTargetProtocols(ProtocolGRPC), WithTargetCodecs(CodecProto))
		tr, err := NewTranscoder([]*Service{svc})
		if err != nil {
			t.Fatal(err)
		}
		req := httptest.NewRequest("POST", "/vanguard.test.v1.LibraryService/GetBook", bytes.NewReader([]byte{0x0a, 0x00}))
		req.Header.Set("Content-Type", "application/proto")
		req.Header.Set("Connect-Protocol-Version", "1")
		rec := httptest.NewRecorder()
		tr.ServeHTTP(rec, req)
		if got := rec.Header().Get("Trailer-X-Prefixed"); got != "p" {
			t.Errorf("status %d: Trailer-X-Prefixed = %q, want \"p\"; headers %v", rec.Code, got, rec.Header())
		}
	})
	t.Run("rest_backend_http_trailers", func(t *testing.T) {
		handler := http.HandlerFunc(func(w http.ResponseWriter, r *http.Request) {
			w.Header().Set("Content-Type", "application/json")
			w.Header().Set("Trailer", "X-Declared")
			w.WriteHeader(200)
			_, _ = w.Write([]byte(`{}`))
			w.Header().Set("X-Declared", "d")
			w.Header().Set(http.TrailerPrefix+"X-Prefixed", "p")
		})
		svc := NewService(testv1connect.LibraryServiceName, handler, WithTargetProtocols(ProtocolREST))
		tr, err := NewTranscoder([]*Service{svc})
		if err != nil {
			t.Fatal(err)
		}
		// GetBook{name: "shelves/1/books/2"} as Connect unary proto
		name := "shelves/1/books/2"
		body := append([]byte{0x0a, byte(len(name))}, name...)
		req := httptest.NewRequest("POST", "/vanguard.test.v1.LibraryService/GetBook", bytes.NewReader(body))
		req.Header.Set("Content-Type", "application/proto")
		req.Header.Set("Connect-Protocol-Version", "1")
		rec := httptest.NewRecorder()
		tr.ServeHTTP(rec, req)
		if rec.Code != 200 {
			t.Fatalf("status %d body %q", rec.Code, rec.Body.String())
		}
		for k, want := range map[string]string{"Trailer-X-Declared": "d", "Trailer-X-Prefixed": "p"} {
			if got := rec.Header().Get(k); got != want {
				t.Errorf("%s = %q, want %q; headers %v", k, got, want, rec.Header())
			}
		}
	})
}
