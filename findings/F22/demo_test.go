package vanguard

import (
	"bytes"
	"net/http"
	"net/http/httptest"
	"testing"

	"connectrpc.com/vanguard/internal/gen/vanguard/test/v1/testv1connect"
)

// C11: an enveloped-protocol client (gRPC-Web here) calling a method whose backend needs the first
// message to build its request line (REST) with an EMPTY body (not even an envelope): handle() treats
// the io.EOF as "empty message" and calls reqMsg.markReady(), but the message buffer was never
// allocated because the EOF came from reading the envelope, so m.buf.Len() dereferences nil.
func TestF22EmptyEnvelopedBodyToREST(t *testing.T) {
	handler := http.HandlerFunc(func(w http.ResponseWriter, r *http.Request) {
		w.Header().Set("Content-Type", "application/json")
		w.WriteHeader(200)
		_, _ = w.Write([]byte("{}"))
	})
	svc := NewService(testv1connect.LibraryServiceName, handler, WithTargetProtocols(ProtocolREST))
	tr, err := NewTranscoder([]*Service{svc})
	if err != nil {
		t.Fatal(err)
	}
	req := httptest.NewRequest("POST", "/vanguard.test.v1.LibraryService/GetBook", bytes.NewReader(nil))
	req.Header.Set("Content-Type", "application/grpc-web+proto")
	rec := httptest.NewRecorder()
	defer func() {
		if p := recover(); p != nil {
			t.Fatalf("ServeHTTP panicked: %v", p)
		}
	}()
	tr.ServeHTTP(rec, req)
	t.Logf("status %d, grpc-status %q, body %q", rec.Code, rec.Header().Get("Grpc-Status"), rec.Body.String())
}
