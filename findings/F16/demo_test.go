package vanguard

import (
	"bytes"
	"net/http"
	"net/http/httptest"
	"testing"

	"connectrpc.com/vanguard/internal/gen/vanguard/test/v1/testv1connect"
)

// C13: a gRPC request to a gRPC backend needs no conversion and must be forwarded with the
// client's protocol version. validate() rewrites Proto to "HTTP/2" even when the request already
// is HTTP/2 (net/http reports "HTTP/2.0").
func TestF16ProtoForwarded(t *testing.T) {
	seen := ""
	handler := http.HandlerFunc(func(w http.ResponseWriter, r *http.Request) {
		seen = r.Proto
		w.WriteHeader(200)
	})
	svc := NewService(testv1connect.LibraryServiceName, handler, WithTargetProtocols(ProtocolGRPC), WithTargetCodecs(CodecProto))
	tr, err := NewTranscoder([]*Service{svc})
	if err != nil {
		t.Fatal(err)
	}
	req := httptest.NewRequest("POST", "/vanguard.test.v1.LibraryService/GetBook", bytes.NewReader([]byte{0, 0, 0, 0, 0}))
	req.Proto, req.ProtoMajor, req.ProtoMinor = "HTTP/2.0", 2, 0
	req.Header.Set("Content-Type", "application/grpc+proto")
	req.Header.Set("Te", "trailers")
	tr.ServeHTTP(httptest.NewRecorder(), req)
	if seen != "HTTP/2.0" {
		t.Errorf("pass-through gRPC handler saw Proto %q, client sent %q", seen, "HTTP/2.0")
	}
}
