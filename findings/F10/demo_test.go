package vanguard

import (
	"bytes"
	"compress/gzip"
	"io"
	"net/http"
	"net/http/httptest"
	"sync/atomic"
	"testing"

	"connectrpc.com/connect"
	"connectrpc.com/vanguard/internal/gen/vanguard/test/v1/testv1connect"
)

type countingDecompressor struct {
	*gzip.Reader
	n *atomic.Int64
}

func (c *countingDecompressor) Read(p []byte) (int, error) {
	n, err := c.Reader.Read(p)
	c.n.Add(int64(n))
	return n, err
}

// C10: with a message buffer limit L the transcoder never holds more than a small multiple of L
// bytes of one message, counting the decompressed size. A 4 MiB message that gzip shrinks to a
// few KiB passes the wire-size checks; compressionPool.decompress then reads the decompressor to
// EOF into a buffer, whatever L is.
func TestF10DecompressedSizeIsBounded(t *testing.T) {
	const limit = 16 * 1024
	var produced atomic.Int64
	handler := http.HandlerFunc(func(w http.ResponseWriter, r *http.Request) {
		_, _ = io.Copy(io.Discard, r.Body)
		w.Header().Set("Content-Type", "application/grpc+proto")
		w.Header().Set("Grpc-Status", "0")
		w.WriteHeader(200)
	})
	svc := NewService(testv1connect.LibraryServiceName, handler,
		WithTargetProtocols(ProtocolGRPC), WithTargetCodecs(CodecProto), WithNoTargetCompression(),
		WithMaxMessageBufferBytes(limit))
	tr, err := NewTranscoder([]*Service{svc}, WithCompression("gzip",
		func() connect.Compressor { return gzip.NewWriter(io.Discard) },
		func() connect.Decompressor { return &countingDecompressor{Reader: &gzip.Reader{}, n: &produced} }))
	if err != nil {
		t.Fatal(err)
	}
	var body bytes.Buffer
	zw := gzip.NewWriter(&body)
	_, _ = zw.Write(make([]byte, 4<<20))
	_ = zw.Close()
	if body.Len() > limit {
		t.Fatalf("compressed body unexpectedly large: %d", body.Len())
	}
	req := httptest.NewRequest("POST", "/vanguard.test.v1.LibraryService/GetBook", &body)
	req.Header.Set("Content-Type", "application/proto")
	req.Header.Set("Connect-Protocol-Version", "1")
	req.Header.Set("Content-Encoding", "gzip")
	rec := httptest.NewRecorder()
	tr.ServeHTTP(rec, req)
	t.Logf("status %d, decompressor produced %d bytes (limit %d)", rec.Code, produced.Load(), limit)
	if produced.Load() > 4*limit {
		t.Errorf("transcoder pulled %d decompressed bytes into memory with a message limit of %d", produced.Load(), limit)
	}
}
