package vanguard

import (
	"bytes"
	"compress/gzip"
	"encoding/binary"
	"io"
	"net/http"
	"net/http/httptest"
	"testing"

	"connectrpc.com/vanguard/internal/gen/vanguard/test/v1/testv1connect"
)

func f36Frame(flag byte, payload []byte) []byte {
	out := make([]byte, 5, 5+len(payload))
	out[0] = flag
	binary.BigEndian.PutUint32(out[1:], uint32(len(payload)))
	return append(out, payload...)
}

func f36Gzip(b []byte) []byte {
	var buf bytes.Buffer
	zw := gzip.NewWriter(&buf)
	_, _ = zw.Write(b)
	_ = zw.Close()
	return buf.Bytes()
}

// C09/C02: an envelope whose compressed flag is set although the stream declared no compression is an
// invalid envelope ("If the Compressed-Flag is set but Message-Encoding is not: INTERNAL", gRPC spec;
// Connect says the same). Request side: a gRPC-Web client sends flag 1 without Grpc-Encoding.
func f36Request(t *testing.T, codec string) (bodyLen int, readErr error, flag byte, enc string, rec *httptest.ResponseRecorder) {
	t.Helper()
	handler := http.HandlerFunc(func(w http.ResponseWriter, r *http.Request) {
		body, err := io.ReadAll(r.Body)
		bodyLen, readErr = len(body), err
		if len(body) > 0 {
			flag = body[0]
		}
		enc = r.Header.Get("Grpc-Encoding")
		w.Header().Set("Content-Type", "application/grpc+"+codec)
		w.Header().Set("Trailer", "Grpc-Status")
		w.WriteHeader(200)
		w.Header().Set("Grpc-Status", "0")
	})
	svc := NewService(testv1connect.LibraryServiceName, handler, WithTargetProtocols(ProtocolGRPC), WithTargetCodecs(codec))
	tr, err := NewTranscoder([]*Service{svc})
	if err != nil {
		t.Fatal(err)
	}
	msg := append([]byte{0x0a, 0x11}, "shelves/1/books/1"...)
	req := httptest.NewRequest("POST", "/vanguard.test.v1.LibraryService/GetBook", bytes.NewReader(f36Frame(1, f36Gzip(msg))))
	req.Header.Set("Content-Type", "application/grpc-web+proto")
	rec = httptest.NewRecorder()
	tr.ServeHTTP(rec, req)
	return
}

func f36Check(t *testing.T, codec string) {
	bodyLen, readErr, flag, enc, rec := f36Request(t, codec)
	t.Logf("backend read %d bytes (err %v) flag=%d Grpc-Encoding=%q; client got status %d body %q", bodyLen, readErr, flag, enc, rec.Code, rec.Body.String())
	if bodyLen > 0 && flag&1 == 1 && enc == "" {
		t.Errorf("backend was handed an envelope flagged compressed with no Grpc-Encoding")
	}
	if bodyLen > 0 && readErr == nil {
		t.Errorf("backend was handed a complete-looking message (%d bytes) from a request with an invalid envelope flag", bodyLen)
	}
	status := rec.Result().Header.Get("Grpc-Status") // trailers-only response
	if status == "" && bytes.Contains(bytes.ToLower(rec.Body.Bytes()), []byte("grpc-status: 3")) {
		status = "3" // trailer frame
	}
	if status != "3" {
		t.Errorf("client did not receive invalid_argument for an invalid envelope flag: grpc-status %q body %q", status, rec.Body.String())
	}
}

func TestF36CompressedFlagWithoutEncodingRequestSameCodec(t *testing.T) { f36Check(t, CodecProto) }

func TestF36CompressedFlagWithoutEncodingRequestReencoded(t *testing.T) { f36Check(t, CodecJSON) }

// Response side: a gRPC backend sends a message flagged compressed without declaring Grpc-Encoding.
func TestF36CompressedFlagWithoutEncodingResponse(t *testing.T) {
	msg := append([]byte{0x0a, 0x11}, "shelves/1/books/1"...)
	handler := http.HandlerFunc(func(w http.ResponseWriter, r *http.Request) {
		w.Header().Set("Content-Type", "application/grpc+proto")
		w.Header().Set("Trailer", "Grpc-Status")
		w.WriteHeader(200)
		_, _ = w.Write(f36Frame(1, f36Gzip(msg)))
		w.Header().Set("Grpc-Status", "0")
	})
	svc := NewService(testv1connect.LibraryServiceName, handler, WithTargetProtocols(ProtocolGRPC), WithTargetCodecs(CodecProto))
	tr, err := NewTranscoder([]*Service{svc})
	if err != nil {
		t.Fatal(err)
	}
	for _, ct := range []string{"application/proto", "application/json"} {
		body := msg
		if ct == "application/json" {
			body = []byte(`{"name":"shelves/1/books/1"}`)
		}
		req := httptest.NewRequest("POST", "/vanguard.test.v1.LibraryService/GetBook", bytes.NewReader(body))
		req.Header.Set("Content-Type", ct)
		req.Header.Set("Connect-Protocol-Version", "1")
		rec := httptest.NewRecorder()
		tr.ServeHTTP(rec, req)
		t.Logf("%s: status %d content-encoding %q body %q", ct, rec.Code, rec.Header().Get("Content-Encoding"), rec.Body.String())
		if rec.Code == 200 {
			t.Errorf("%s: response with an invalid envelope flag surfaced as success", ct)
		}
	}
}
