package vanguard

import (
	"testing"
)

// X-Server-Timeout: a malformed value must be rejected; a huge one clamped; never a negative duration.
func TestF6RestTimeout(t *testing.T) {
	for _, v := range []string{"Inf", "1e10", "9223372037", "1e300"} {
		d, err := restDecodeTimeout(v)
		if err == nil && d < 0 {
			t.Errorf("X-Server-Timeout %q became the negative duration %v", v, d)
		}
	}
	for _, v := range []string{"NaN", "-1", "-Inf"} {
		d, err := restDecodeTimeout(v)
		if err == nil {
			t.Errorf("malformed X-Server-Timeout %q accepted as %v", v, d)
		}
	}
	if d, err := restDecodeTimeout("1.5"); err != nil || d != 1500000000 {
		t.Errorf("1.5 => %v, %v", d, err)
	}
}
