package vanguard

import (
	"bytes"
	"io"
	"net/http"
	"net/http/httptest"
	"testing"

	"connectrpc.com/vanguard/internal/gen/vanguard/test/v1/testv1connect"
)

// gRPC-Web client -> gRPC backend, same codec: envelopes are only re-framed (envelopingReader).
// The backend reads its body with a 2-byte buffer.
func TestF19SmallReads(t *testing.T) {
	payload := []byte("\x0a\x03abc")
	var got []byte
	handler := http.HandlerFunc(func(w http.ResponseWriter, r *http.Request) {
		buf := make([]byte, 2)
		for {
			n, err := r.Body.Read(buf)
			got = append(got, buf[:n]...)
			if err != nil {
				break
			}
		}
		w.Header().Set("Content-Type", "application/grpc+proto")
		w.Header().Set("Grpc-Status", "0")
		w.WriteHeader(200)
	})
	svc := NewService(testv1connect.LibraryServiceName, handler, WithTargetProtocols(ProtocolGRPC), WithTargetCodecs(CodecProto))
	tr, err := NewTranscoder([]*Service{svc})
	if err != nil {
		t.Fatal(err)
	}
	body := append([]byte{0, 0, 0, 0, byte(len(payload))}, payload...)
	req := httptest.NewRequest("POST", "/vanguard.test.v1.LibraryService/GetBook", bytes.NewReader(body))
	req.Header.Set("Content-Type", "application/grpc-web+proto")
	rec := httptest.NewRecorder()
	tr.ServeHTTP(rec, req)
	_, _ = io.Discard.Write(nil)
	if !bytes.Equal(got, body) {
		t.Fatalf("backend read % x, want % x", got, body)
	}
}
