package vanguard

import (
	"bytes"
	"net/http"
	"net/http/httptest"
	"strings"
	"testing"

	"connectrpc.com/vanguard/internal/gen/vanguard/test/v1/testv1connect"
)

// gRPC/proto backend -> gRPC-Web/JSON client (transformingWriter). The backend announces a
// 22-byte message, writes nothing of it, and reports success in its trailers.
func TestF20AnnouncedButMissingPayload(t *testing.T) {
	handler := http.HandlerFunc(func(w http.ResponseWriter, r *http.Request) {
		w.Header().Set("Content-Type", "application/grpc+proto")
		w.Header().Set("Trailer", "Grpc-Status, Grpc-Message")
		w.WriteHeader(200)
		_, _ = w.Write([]byte{0, 0, 0, 0, 22})
		w.Header().Set("Grpc-Status", "0")
	})
	svc := NewService(testv1connect.LibraryServiceName, handler, WithTargetProtocols(ProtocolGRPC), WithTargetCodecs(CodecProto))
	tr, err := NewTranscoder([]*Service{svc})
	if err != nil {
		t.Fatal(err)
	}
	req := httptest.NewRequest("POST", "/vanguard.test.v1.LibraryService/GetBook", bytes.NewReader(append([]byte{0, 0, 0, 0, 2}, "{}"...)))
	req.Header.Set("Content-Type", "application/grpc-web+json")
	rec := httptest.NewRecorder()
	tr.ServeHTTP(rec, req)
	body := rec.Body.String()
	t.Logf("body %q", body)
	if strings.Contains(strings.ToLower(body), "grpc-status: 0") {
		t.Fatalf("truncated response reported as success")
	}
}
