package vanguard

import (
	"net/http"
	"net/http/httptest"
	"testing"

	"connectrpc.com/vanguard/internal/gen/vanguard/test/v1/testv1connect"
	"google.golang.org/genproto/googleapis/api/annotations"
)

// C17: a rule selector binds exactly the methods it names: an exact method name, or a
// '*'-terminated prefix ending at a name boundary. registerRules matches every selector with
// strings.HasPrefix, so a selector without wildcard that is a proper prefix of a method name
// ("...LibraryService.GetB") is accepted and binds methods it does not name.
func TestF3RuleSelectorMustNameAMethod(t *testing.T) {
	handler := http.HandlerFunc(func(w http.ResponseWriter, r *http.Request) { w.WriteHeader(200) })
	svc := NewService(testv1connect.LibraryServiceName, handler)
	rule := &annotations.HttpRule{
		Selector: "vanguard.test.v1.LibraryService.GetB", // not a method, no wildcard
		Pattern:  &annotations.HttpRule_Get{Get: "/f3/{name=shelves/*/books/*}"},
	}
	tr, err := NewTranscoder([]*Service{svc}, WithRules(rule))
	if err == nil {
		req := httptest.NewRequest("GET", "/f3/shelves/1/books/2", nil)
		rec := httptest.NewRecorder()
		tr.ServeHTTP(rec, req)
		t.Fatalf("selector that names no method was accepted; GET /f3/shelves/1/books/2 -> %d", rec.Code)
	}
	t.Logf("rejected as expected: %v", err)
}
