#!/bin/bash
# Applies every seeded change under /verif/seeded to /repo (working tree only), runs the quick check
# of the property it breaks, reverts, and prints one line per change.
cd "$(dirname "$0")"
for d in seeded/*/; do
  n=$(basename "$d"); prop=${n%%_*}
  [ -n "$1" ] && [ "$1" != "$n" ] && [ "$1" != "$prop" ] && continue
  if ! git -C /repo apply --check "$PWD/$d/patch.diff" 2>/dev/null; then echo "$n: patch does not apply"; continue; fi
  git -C /repo apply "$PWD/$d/patch.diff"
  out=$(./check "$prop" quick 2>&1); rc=$?
  git -C /repo checkout -- . 
  v=$(echo "$out" | grep -c '^VIOLATION')
  first=$(echo "$out" | grep '^VIOLATION' | head -1 | sed 's/.*obligation=//')
  und=$(echo "$out" | grep -c '^UNDECIDED')
  echo "$n: rc=$rc violations=$v undecided=$und first=[$first]"
done
