#!/bin/bash
# Applies every seeded change under /verif/seeded to /repo (working tree only), runs the quick check
# of the property it breaks, reverts, and prints one line per change.
cd "$(dirname "$0")"
if [ -n "$(git -C /repo status --porcelain)" ]; then echo "run_seeded: /repo has uncommitted changes (they would be lost by the revert): commit them first" >&2; exit 2; fi
for d in seeded/*/; do
  n=$(basename "$d"); prop=${n%%_*}
  [ -n "$1" ] && [ "$1" != "$n" ] && [ "$1" != "$prop" ] && continue
  if ! git -C /repo apply --check "$PWD/$d/patch.diff" 2>/dev/null; then echo "$n: patch does not apply"; continue; fi
  git -C /repo apply "$PWD/$d/patch.diff"
  out=$(./check "$prop" quick 2>&1); rc=$?
  git -C /repo checkout -- . 
  v=$(echo "$out" | grep -c '^VIOLATION')
  first=$(echo "$out" | grep '^VIOLATION' | head -1 | sed 's/.*obligation=//')
  und=$(echo "$out" | grep -c '^UNDECIDED')
  echo "$n: rc=$rc violations=$v undecided=$und first=[$first]"
  python3 - "$PWD/$d/meta.json" "$rc" "$v" "$first" "$(echo "$out" | grep '^VIOLATION' | sed 's/.*obligation=//' | paste -sd';')" <<'P'
import json,sys,os
p,rc,v,first,allv=sys.argv[1:6]
m=json.load(open(p)) if os.path.exists(p) else {}
m["check_result"]={"command":"git -C /repo apply patch.diff; /verif/check %s quick; git -C /repo checkout -- ."%m.get("breaks_property","?"),"exit_code":int(rc),"violations":int(v),"failed_obligations":[x for x in allv.split(';') if x],"detected":int(rc)==1 and int(v)>0}
json.dump(m,open(p,'w'),indent=1)
P
done
