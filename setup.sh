#!/bin/bash
# Builds /verif/bin/govc offline with the pre-installed go1.26.8 and the cached x/tools v0.50.0.
set -e
HERE="$(cd "$(dirname "$0")" && pwd)"
mkdir -p "$HERE/bin" "$HERE/out" "$HERE/evidence"
cd "$HERE/govc"
PATH=/opt/veriftools/go1.26.8/bin:$PATH GOTOOLCHAIN=local GOFLAGS=-mod=mod GOPROXY=off GOSUMDB=off go build -o "$HERE/bin/govc" .
echo "govc built"
