#!/bin/bash
# Records, per property, the obligations discharged on the current (unchanged) tree.
cd "$(dirname "$0")"
for p in "$@"; do
  rm -f baseline/$p.json; extra=""; [ "$p" = C11 ] && extra="-sweep"
  ./bin/govc -repo /repo -specs ./specs -out ./out -prop "$p" -update-baseline $extra | tail -1
done
