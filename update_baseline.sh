#!/bin/bash
# Records, per property, the obligations discharged on the current (unchanged) tree.
cd "$(dirname "$0")"
for p in "$@"; do
  rm -f baseline/$p.json; extra=""; case "$p" in C11|C15|C17) extra="-sweep";; esac
  ./bin/govc -repo /repo -specs ./specs -out ./out -prop "$p" -update-baseline $extra | tail -1
done
