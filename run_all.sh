#!/bin/bash
# Runs the quick check of every claimed property on the current tree (used before committing
# evidence: committed evidence must come from a clean run on the unchanged tree).
cd /verif
if [ -n "$(git -C /repo status --porcelain)" ]; then echo "run_all: /repo working tree is not clean"; exit 2; fi
rc=0
for id in $(python3 -c "import json; print(' '.join(c['property_id'] for c in json.load(open('MANIFEST.json'))['checks']))"); do
  out=$(./check $id ${1:-quick} 2>&1); r=$?
  echo "$out" | grep -E "^(VIOLATION|KNOWN-FINDING|UNDECIDED|govc:)" | tail -5
  [ $r -ne 0 ] && rc=1
done
exit $rc
