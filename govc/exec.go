package main

// Symbolic execution of one SSA function with state merging at join points (one pass over the
// acyclic block graph obtained by cutting loops at their headers).

import (
	"bytes"
	"fmt"
	"go/ast"
	"go/constant"
	"go/printer"
	"go/token"
	"go/types"
	"math"
	"sort"
	"strings"

	"golang.org/x/tools/go/ast/astutil"
	"golang.org/x/tools/go/ssa"
)

type Exec struct {
	curSt         *State
	eng           *Engine
	vc            *VC
	top           *ssa.Function
	contract      *Contract
	heapSorts     map[string]Sort
	written       map[string]bool
	epochCtr      int
	allocCtr      int64
	entry         *State
	nilSeen       map[string]*ssa.BasicBlock
	checkConv     bool
	arith         string // "math" (default) | "wrap" | "checked"
	inlineStack   []*ssa.Function
	counters      []*TrackClause
	unsupported   []string
	inSpec        bool
	encCache      map[string]Term
	siteNo        map[string]map[token.Pos]int
	fieldTypeKey  map[string]string // heap key of a map-typed struct field -> type key of the field
	inTypeInv     bool
	boxedAddrs    map[string]VAddr
	subLits       map[string]Term
	matched       map[string]bool
	poolVals      map[string]bool
	freshStore    bool
	assumeNil     bool
	inlinedInLoop bool
	specErrors    []string
	usedModels    map[string]bool
}

type Frame struct {
	fn       *ssa.Function
	regs     map[ssa.Value]Value
	args     []Value
	free     []Value
	prefix   string // obligation-name prefix for inlined frames
	top      bool
	entry    *State
	curBlk   *ssa.BasicBlock
	curPos   token.Pos
	results  []Value
	loops    map[*ssa.BasicBlock]*loopInfo
	contract *Contract
}

type edge struct {
	from *ssa.BasicBlock
	cond Term
	st   *State
}

type loopInfo struct {
	header     *ssa.BasicBlock
	body       map[*ssa.BasicBlock]bool
	ordinal    int
	snap       *State // state at header after havoc+assume
	inv        []*Clause
	dec        *Clause
	nobreak    *Clause
	decVal     []Term
	appendOnly map[string]bool
}

func (x *Exec) assume(st *State, fact Term) {
	x.vc.Assert(Implies(st.pc, fact))
}

func (x *Exec) oblige(fr *Frame, st *State, kind, detail, desc string, pos token.Pos, goal Term, props []string) {
	if goal.IsTrue() || st.pc.IsFalse() {
		return
	}
	if isImplicitKind(kind) && x.contract != nil && x.contract.Opts["implicit"] == "assume" && !x.inSpec {
		// configuration-time function: its panic-safety obligations are not part of what its
		// contract is used for; they are assumed and listed, not proved
		x.vc.assumption("implicit safety obligations (nil, bounds, conversions) of %s are assumed, not proved (opt implicit=assume)", x.contract.Key)
		x.assume(st, goal)
		return
	}
	if kind == "nil" && x.assumeNil {
		x.vc.assumption("pointer/interface well-formedness (non-nil receivers and fields) assumed in functions without contract")
		x.assume(st, goal)
		return
	}
	name := fr.prefix + kind + ":" + detail
	o := &Obligation{Name: name, Kind: kind, Desc: desc, Pos: x.eng.fset.Position(pos), Cond: st.pc, Goal: goal,
		Props: props, Implicit: isImplicitKind(kind)}
	if showExprs != "" && fr.top && !x.inSpec {
		o.Inputs = append(x.showAt(fr, st), x.vc.inputs...)
	}
	x.vc.AddObligation(o)
	x.assume(st, goal)
}

// showAt (debugging aid): evaluates the -show expressions in the given state.
func (x *Exec) showAt(fr *Frame, st *State) []ModelVar {
	var out []ModelVar
	for _, src := range strings.Split(showExprs, ";") {
		se, err := parseSpec(src)
		if err != nil {
			continue
		}
		vars := x.frameVars(fr, true)
		env := x.newEnv(fr, st, fr.entry, vars, fr.fn)
		loc := x.localsOf(fr, st, token.NoPos)
		env.locals = loc
		env.entryVars = x.frameVars(fr, true)
		for _, p := range fr.fn.Params {
			if tv, ok := loc(p.Name()); ok {
				env.vars[p.Name()] = tv
			}
		}
		x.inSpec = true
		tv := env.eval(se)
		x.inSpec = false
		if env.err != nil {
			continue
		}
		if ts, ok := flatten(tv.V); ok {
			for i, t := range ts {
				c := x.vc.Fresh("show", t.Sort)
				x.vc.Assert(Eq(c, t))
				out = append(out, ModelVar{fmt.Sprintf("SHOW %s#%d", strings.TrimSpace(src), i), c})
			}
		}
	}
	return out
}

func isImplicitKind(k string) bool {
	switch k {
	case "bounds", "nil", "conv", "div", "assert", "overflow", "panic", "owned":
		return true
	}
	return false
}

// srcText renders the smallest expression enclosing pos of one of the wanted kinds.
func (x *Exec) srcText(fn *ssa.Function, pos token.Pos, want func(ast.Node) bool) string {
	if !pos.IsValid() {
		return "?"
	}
	file := x.eng.fileOf(pos)
	if file == nil {
		return "?"
	}
	path, _ := astutil.PathEnclosingInterval(file, pos, pos)
	for _, n := range path {
		if want == nil || want(n) {
			if _, ok := n.(ast.Expr); ok {
				var buf bytes.Buffer
				_ = printer.Fprint(&buf, x.eng.fset, n)
				s := strings.Join(strings.Fields(buf.String()), " ")
				if len(s) > 80 {
					s = s[:80]
				}
				return s
			}
		}
	}
	return "?"
}

// ---------------------------------------------------------------------------------------------

func (x *Exec) val(fr *Frame, v ssa.Value) Value {
	switch v := v.(type) {
	case *ssa.Const:
		return x.constVal(v)
	case *ssa.Global:
		return VAddr{Kind: AGlobal, Glob: v, ElemT: v.Type().(*types.Pointer).Elem()}
	case *ssa.Function:
		return VFunc{Fn: v}
	case *ssa.Builtin:
		return VFunc{}
	case *ssa.FreeVar:
		for i, fv := range fr.fn.FreeVars {
			if fv == v && i < len(fr.free) {
				return fr.free[i]
			}
		}
	}
	if r, ok := fr.regs[v]; ok {
		return r
	}
	r := x.fresh(v.Type(), "undef")
	fr.regs[v] = r
	return r
}

func (x *Exec) constVal(c *ssa.Const) Value {
	t := c.Type()
	if c.Value == nil {
		return x.zero(t)
	}
	switch kindOf(t) {
	case KBool:
		return VTerm{BoolLit(constant.BoolVal(c.Value))}
	case KInt:
		if bi, ok := constant.Val(constant.ToInt(c.Value)).(*bigInt); ok {
			return VTerm{BigLit(bi)}
		}
		if i, ok := constant.Int64Val(constant.ToInt(c.Value)); ok {
			return VTerm{IntLit(i)}
		}
	case KString:
		return VTerm{x.vc.StrLit(constant.StringVal(c.Value))}
	case KFloat:
		f, _ := constant.Float64Val(c.Value)
		return VTerm{fpLit(f)}
	}
	return x.zero(t)
}

func fpLit(f float64) Term {
	b := math.Float64bits(f)
	sign := b >> 63
	exp := (b >> 52) & 0x7ff
	man := b & ((1 << 52) - 1)
	return Term{fmt.Sprintf("(fp #b%b #b%011b #b%052b)", sign, exp, man), SFP}
}

// ---------------------------------------------------------------------------------------------
// block order and loops

func blockOrder(fn *ssa.Function) ([]*ssa.BasicBlock, map[[2]int]bool) {
	back := map[[2]int]bool{}
	visited := map[*ssa.BasicBlock]int{}
	var post []*ssa.BasicBlock
	var dfs func(b *ssa.BasicBlock)
	dfs = func(b *ssa.BasicBlock) {
		visited[b] = 1
		for _, s := range b.Succs {
			switch visited[s] {
			case 0:
				dfs(s)
			case 1:
				back[[2]int{b.Index, s.Index}] = true
			}
		}
		visited[b] = 2
		post = append(post, b)
	}
	if len(fn.Blocks) > 0 {
		dfs(fn.Blocks[0])
	}
	for i, j := 0, len(post)-1; i < j; i, j = i+1, j-1 {
		post[i], post[j] = post[j], post[i]
	}
	return post, back
}

func findLoops(fn *ssa.Function, back map[[2]int]bool) map[*ssa.BasicBlock]*loopInfo {
	loops := map[*ssa.BasicBlock]*loopInfo{}
	for e := range back {
		src, hdr := fn.Blocks[e[0]], fn.Blocks[e[1]]
		li := loops[hdr]
		if li == nil {
			li = &loopInfo{header: hdr, body: map[*ssa.BasicBlock]bool{hdr: true}}
			loops[hdr] = li
		}
		// natural loop: nodes reaching src without passing through hdr
		var stack []*ssa.BasicBlock
		if !li.body[src] {
			li.body[src] = true
			stack = append(stack, src)
		}
		for len(stack) > 0 {
			b := stack[len(stack)-1]
			stack = stack[:len(stack)-1]
			for _, p := range b.Preds {
				if !li.body[p] {
					li.body[p] = true
					stack = append(stack, p)
				}
			}
		}
	}
	// ordinals in source order of the header's first instruction position
	var hs []*ssa.BasicBlock
	for h := range loops {
		hs = append(hs, h)
	}
	sort.Slice(hs, func(i, j int) bool { return loopPos(hs[i]) < loopPos(hs[j]) })
	for i, h := range hs {
		loops[h].ordinal = i + 1
	}
	return loops
}

func loopPos(b *ssa.BasicBlock) token.Pos {
	best := token.Pos(1 << 40)
	for _, in := range b.Instrs {
		if p := in.Pos(); p.IsValid() && p < best {
			best = p
		}
	}
	if best == token.Pos(1<<40) {
		// fall back to body blocks
		for _, s := range b.Succs {
			for _, in := range s.Instrs {
				if p := in.Pos(); p.IsValid() && p < best {
					best = p
				}
			}
		}
	}
	return best
}

// ---------------------------------------------------------------------------------------------

// execFunction runs fn from state st; returns the merged exit state and result values.
func (x *Exec) execFunction(fr *Frame, st *State) (*State, []Value) {
	fn := fr.fn
	if len(fn.Blocks) == 0 {
		return st, nil
	}
	order, back := blockOrder(fn)
	fr.loops = findLoops(fn, back)
	if fr.contract != nil {
		if fr.top {
			// a loop clause whose ordinal names no loop of the function would be silently vacuous
			for _, lc := range fr.contract.Loops {
				found := false
				for _, li := range fr.loops {
					if lc.Ordinal == li.ordinal {
						found = true
					}
				}
				if !found {
					x.specErrors = append(x.specErrors, fmt.Sprintf("%s: loop %d %s names no loop of the function (it has %d)", fn.Name(), lc.Ordinal, lc.Kind, len(fr.loops)))
				}
			}
		}
		for _, li := range fr.loops {
			for _, lc := range fr.contract.Loops {
				if lc.Ordinal == li.ordinal {
					lc.loopPos = loopPos(li.header)
					if lc.Kind == "invariant" {
						li.inv = append(li.inv, lc)
					} else if lc.Kind == "decreases" {
						li.dec = lc
					} else if lc.Kind == "nobreak" {
						li.nobreak = lc
					}
				}
			}
		}
	}
	for i, p := range fn.Params {
		if i < len(fr.args) {
			fr.regs[p] = fr.args[i]
		}
	}
	incoming := map[*ssa.BasicBlock][]edge{}
	incoming[fn.Blocks[0]] = []edge{{nil, TTrue, st}}
	type exitRec struct {
		st  *State
		res []Value
	}
	var exits []exitRec

	for _, b := range order {
		edges := incoming[b]
		if len(edges) == 0 {
			continue
		}
		cur := x.mergeEdges(fr, b, edges)
		if cur == nil || cur.pc.IsFalse() {
			continue
		}
		fr.curBlk = b
		if li := fr.loops[b]; li != nil {
			x.enterLoop(fr, li, cur)
		}
		// phis
		for _, in := range b.Instrs {
			phi, ok := in.(*ssa.Phi)
			if !ok {
				break
			}
			if fr.loops[b] != nil {
				// loop header: the value of an arbitrary iteration
				fr.regs[phi] = x.fresh(phi.Type(), "lphi."+phi.Comment)
				continue
			}
			fr.regs[phi] = x.phiValue(fr, phi, b, edges)
		}
		terminated := false
		for _, in := range b.Instrs {
			if _, ok := in.(*ssa.Phi); ok {
				continue
			}
			if in.Pos().IsValid() {
				fr.curPos = in.Pos()
			}
			switch in := in.(type) {
			case *ssa.If:
				c := x.val(fr, in.Cond).(VTerm).T
				c = x.vc.Name(c, "br")
				x.addEdge(fr, incoming, back, b, b.Succs[0], c, cur)
				x.addEdge(fr, incoming, back, b, b.Succs[1], Not(c), cur)
				terminated = true
			case *ssa.Jump:
				x.addEdge(fr, incoming, back, b, b.Succs[0], TTrue, cur)
				terminated = true
			case *ssa.Return:
				var res []Value
				for _, r := range in.Results {
					res = append(res, x.val(fr, r))
				}
				exits = append(exits, exitRec{cur, res})
				if coverReturns && fr.top && !cur.pc.IsFalse() {
					// audit mode: every return statement of the function under verification must be
					// reachable in the model (an unreachable one means some assumption is too strong)
					pos := x.eng.fset.Position(in.Pos())
					x.vc.AddObligation(&Obligation{Name: fmt.Sprintf("cover:return@%d", pos.Line), Kind: "cover", Desc: fmt.Sprintf("return at line %d reachable", pos.Line), Cond: cur.pc, Goal: TFalse, Cover: true})
				}
				terminated = true
			case *ssa.Panic:
				x.oblige(fr, cur, "panic", "explicit", "explicit panic reachable", in.Pos(), TFalse, nil)
				terminated = true
			default:
				x.execInstr(fr, cur, in)
			}
			if terminated || cur.pc.IsFalse() {
				break
			}
		}
	}
	if len(exits) == 0 {
		dead := st.clone()
		dead.pc = TFalse
		return dead, nil
	}
	var es []edge
	for _, e := range exits {
		es = append(es, edge{nil, TTrue, e.st})
	}
	out := x.mergeStates(es)
	var results []Value
	n := len(exits[0].res)
	for i := 0; i < n; i++ {
		var vals []Value
		var conds []Term
		for _, e := range exits {
			vals = append(vals, e.res[i])
			conds = append(conds, e.st.pc)
		}
		results = append(results, x.mergeValues(vals, conds, fn.Signature.Results().At(i).Type(), "ret"))
	}
	return out, results
}

func (x *Exec) addEdge(fr *Frame, incoming map[*ssa.BasicBlock][]edge, back map[[2]int]bool, from, to *ssa.BasicBlock, cond Term, st *State) {
	if cond.IsFalse() {
		return
	}
	ns := st.clone()
	ns.pc = And(st.pc, cond)
	if back[[2]int{from.Index, to.Index}] {
		if li := fr.loops[to]; li != nil {
			x.backEdge(fr, li, ns, from)
		}
		return
	}
	// `loop k nobreak`: an edge from inside the loop (not from its header) to the block the header
	// itself exits to is a break
	for _, li := range fr.loops {
		// (a block that only breaks or returns cannot reach the back edge and is therefore not in
		// the natural loop: membership is decided by dominance)
		if li.nobreak == nil || from == li.header || li.body[to] || !li.header.Dominates(from) {
			continue
		}
		for _, s := range li.header.Succs {
			if s == to {
				x.oblige(fr, ns, "loop", fmt.Sprintf("loop%d/nobreak", li.ordinal), "loop left by break: "+li.nobreak.Src, fr.curPos, TFalse, li.nobreak.Props)
			}
		}
	}
	incoming[to] = append(incoming[to], edge{from, cond, ns})
}

func (x *Exec) mergeEdges(fr *Frame, b *ssa.BasicBlock, edges []edge) *State {
	return x.mergeStates(edges)
}

func (x *Exec) mergeStates(edges []edge) *State {
	if len(edges) == 1 {
		s := edges[0].st
		s.pc = x.vc.Name(s.pc, "R")
		return s
	}
	var pcs []Term
	for _, e := range edges {
		pcs = append(pcs, e.st.pc)
	}
	out := &State{cells: map[*ssa.Alloc]Value{}, heap: map[string]Term{}, defers: map[*ssa.Defer]deferRec{}}
	out.pc = x.vc.Name(Or(pcs...), "R")
	// epoch
	same := true
	for _, e := range edges[1:] {
		if e.st.epoch != edges[0].st.epoch {
			same = false
		}
	}
	keys := map[string]bool{}
	for _, e := range edges {
		for k := range e.st.heap {
			keys[k] = true
		}
	}
	if !same {
		for k := range x.heapSorts {
			keys[k] = true
		}
	}
	for _, k := range sortedKeysB(keys) {
		var vals []Value
		for _, e := range edges {
			vals = append(vals, VTerm{x.heapGet(e.st, k, x.heapSorts[k])})
		}
		out.heap[k] = x.mergeValues(vals, pcs, nil, "H|"+k).(VTerm).T
	}
	if same {
		out.epoch = edges[0].st.epoch
	} else {
		x.epochCtr++
		out.epoch = x.epochCtr
	}
	// local cells: a cell missing on an edge is a variable not (yet) declared on that path; any
	// value will do there
	cellSet := map[*ssa.Alloc]bool{}
	var cellList []*ssa.Alloc
	for _, e := range edges {
		for c := range e.st.cells {
			if !cellSet[c] {
				cellSet[c] = true
				cellList = append(cellList, c)
			}
		}
	}
	sort.Slice(cellList, func(i, j int) bool {
		if cellList[i].Pos() != cellList[j].Pos() {
			return cellList[i].Pos() < cellList[j].Pos()
		}
		return cellList[i].Name() < cellList[j].Name()
	})
	for _, c := range cellList {
		var vals []Value
		var have Value
		all := true
		for _, e := range edges {
			if v, has := e.st.cells[c]; has {
				have = v
			} else {
				all = false
			}
		}
		if !all {
			if _, okf := flatten(have); !okf {
				continue
			}
		}
		for _, e := range edges {
			if v, has := e.st.cells[c]; has {
				vals = append(vals, v)
			} else {
				vals = append(vals, have)
			}
		}
		out.cells[c] = x.mergeValues(vals, pcs, c.Type().(*types.Pointer).Elem(), c.Comment)
	}
	// defers
	dset := map[*ssa.Defer]bool{}
	for _, e := range edges {
		for d := range e.st.defers {
			dset[d] = true
		}
	}
	for d := range dset {
		var acts []Value
		var rec deferRec
		for _, e := range edges {
			if r, ok := e.st.defers[d]; ok {
				acts = append(acts, VTerm{r.Active})
				rec = r
			} else {
				acts = append(acts, VTerm{TFalse})
			}
		}
		rec.Active = x.mergeValues(acts, pcs, nil, "defer").(VTerm).T
		out.defers[d] = rec
	}
	return out
}

func sortedKeysB(m map[string]bool) []string {
	ks := make([]string, 0, len(m))
	for k := range m {
		ks = append(ks, k)
	}
	sort.Strings(ks)
	return ks
}

// mergeValues builds ite(c1,v1, ite(c2,v2, ... vn)).
func (x *Exec) mergeValues(vals []Value, conds []Term, typ types.Type, hint string) Value {
	allSame := true
	for _, v := range vals[1:] {
		if !sameValue(vals[0], v) {
			allSame = false
			break
		}
	}
	if allSame {
		return vals[0]
	}
	var flats [][]Term
	for _, v := range vals {
		f, ok := flatten(v)
		if !ok {
			if typ != nil {
				x.vc.note("merge of executor-level values (%s) havocked", hint)
				return x.fresh(typ, hint)
			}
			return vals[0]
		}
		flats = append(flats, f)
	}
	n := len(flats[0])
	for _, f := range flats {
		if len(f) != n {
			if typ != nil {
				return x.fresh(typ, hint)
			}
			return vals[0]
		}
	}
	out := make([]Term, n)
	for i := 0; i < n; i++ {
		t := flats[len(flats)-1][i]
		for j := len(flats) - 2; j >= 0; j-- {
			t = Ite(conds[j], flats[j][i], t)
		}
		out[i] = x.vc.Name(t, hint)
	}
	return rebuild(vals[0], &out)
}

func (x *Exec) phiValue(fr *Frame, phi *ssa.Phi, b *ssa.BasicBlock, edges []edge) Value {
	var vals []Value
	var conds []Term
	for _, e := range edges {
		for i, p := range b.Preds {
			if p == e.from {
				vals = append(vals, x.val(fr, phi.Edges[i]))
				conds = append(conds, e.st.pc)
				break
			}
		}
	}
	if len(vals) == 0 {
		return x.fresh(phi.Type(), "phi")
	}
	return x.mergeValues(vals, conds, phi.Type(), "phi")
}

// ---------------------------------------------------------------------------------------------
// loops

// loopWrites computes the cells and heap keys possibly written inside the loop body.
func (x *Exec) loopWrites(fr *Frame, li *loopInfo) (cells map[*ssa.Alloc]bool, keys map[string]Sort, all bool) {
	cells = map[*ssa.Alloc]bool{}
	keys = map[string]Sort{}
	li.appendOnly = map[string]bool{}
	nonAppend := map[string]bool{}
	defer func() {
		for k := range nonAppend {
			delete(li.appendOnly, k)
		}
	}()
	for b := range li.body {
		for _, in := range b.Instrs {
			if ci, ok := in.(ssa.CallInstruction); ok {
				if bi, ok := ci.Common().Value.(*ssa.Builtin); ok && bi.Name() == "append" && !ci.Common().IsInvoke() {
					for k, srt := range x.eng.appendKeys(ci) {
						li.appendOnly[k] = true
						keys[k] = srt
					}
				} else {
					for k := range x.eng.callFrame(ci).keys {
						nonAppend[k] = true
					}
				}
			}
			if st, ok := in.(*ssa.Store); ok {
				tmpc := map[*ssa.Alloc]bool{}
				tmpk := map[string]Sort{}
				x.eng.storeTargetLoop(st.Addr, tmpc, tmpk)
				for k := range tmpk {
					nonAppend[k] = true
				}
			}
			switch in := in.(type) {
			case *ssa.Store:
				x.eng.storeTargetLoop(in.Addr, cells, keys)
			case *ssa.MapUpdate:
				for k, s := range x.eng.mapKeys(in.Map.Type()) {
					keys[k] = s
				}
			case ssa.CallInstruction:
				fs := x.eng.callFrame(in)
				if fs.all {
					all = true
				}
				for k, s := range fs.keys {
					keys[k] = s
				}
				// pointer arguments to locals may be written by the callee
				for _, a := range in.Common().Args {
					x.eng.addrRoots(a, cells)
				}
				if in.Common().IsInvoke() == false {
					if mc, ok := in.Common().Value.(*ssa.MakeClosure); ok {
						for _, bnd := range mc.Bindings {
							x.eng.addrRoots(bnd, cells)
						}
					}
				}
			case *ssa.Next, *ssa.Range:
			}
		}
	}
	return
}

// loopCounters: the tracked counters whose callee pattern matches a call made in the loop body,
// directly or through functions the engine inlines there.
func (x *Exec) loopCounters(li *loopInfo) []string {
	if len(x.counters) == 0 {
		return nil
	}
	hit := map[string]bool{}
	seen := map[*ssa.Function]bool{}
	var scanFn func(fn *ssa.Function)
	scanCall := func(ci ssa.CallInstruction) {
		c := ci.Common()
		var keys []string
		var callee *ssa.Function
		if sc := c.StaticCallee(); sc != nil {
			keys = append(keys, fnKey(sc, x.eng.home))
			callee = sc
		} else if c.IsInvoke() {
			keys = append(keys, x.eng.ifaceKey(c.Value.Type(), c.Method.Name()))
		} else {
			// call through a function value: any counter on a "funcvalue:" pattern, and
			// closures created in this function are scanned below via MakeClosure
			keys = append(keys, "funcvalue:")
		}
		for _, tc := range x.counters {
			for _, k := range keys {
				if matchCallee(tc.Callee, k) || (k == "funcvalue:" && strings.HasPrefix(tc.Callee, "funcvalue:")) {
					hit[tc.Name] = true
				}
			}
		}
		if callee != nil && x.eng.contracts.Funcs[fnKey(callee, x.eng.home)] == nil && len(callee.Blocks) > 0 {
			if _, isModel := models[callee.String()]; !isModel {
				scanFn(callee)
			}
		}
	}
	scanFn = func(fn *ssa.Function) {
		if seen[fn] {
			return
		}
		seen[fn] = true
		p := fn
		for p.Parent() != nil {
			p = p.Parent()
		}
		if p.Pkg == nil || !x.eng.homes[p.Pkg.Pkg] {
			return
		}
		for _, b := range fn.Blocks {
			for _, in := range b.Instrs {
				if ci, ok := in.(ssa.CallInstruction); ok {
					scanCall(ci)
				}
				if mc, ok := in.(*ssa.MakeClosure); ok {
					if f, ok := mc.Fn.(*ssa.Function); ok {
						scanFn(f)
					}
				}
			}
		}
	}
	for b := range li.body {
		for _, in := range b.Instrs {
			if ci, ok := in.(ssa.CallInstruction); ok {
				scanCall(ci)
			}
			if mc, ok := in.(*ssa.MakeClosure); ok {
				if f, ok := mc.Fn.(*ssa.Function); ok {
					scanFn(f)
				}
			}
		}
	}
	var out []string
	for n := range hit {
		out = append(out, n)
	}
	sort.Strings(out)
	return out
}

// monotoneCells finds integer cells whose every store inside the loop is `cell = cell ± const`
// with one sign (e.g. range indices); the direction is returned.
func monotoneCells(li *loopInfo) map[*ssa.Alloc]int {
	dir := map[*ssa.Alloc]int{}
	bad := map[*ssa.Alloc]bool{}
	for b := range li.body {
		for _, in := range b.Instrs {
			st, ok := in.(*ssa.Store)
			if !ok {
				continue
			}
			c, ok := st.Addr.(*ssa.Alloc)
			if !ok {
				continue
			}
			d := 0
			if bo, ok := st.Val.(*ssa.BinOp); ok && (bo.Op == token.ADD || bo.Op == token.SUB) {
				if ld, ok := bo.X.(*ssa.UnOp); ok && ld.Op == token.MUL && ld.X == ssa.Value(c) {
					if k, ok := bo.Y.(*ssa.Const); ok && k.Value != nil && kindOf(k.Type()) == KInt {
						if v := k.Int64(); v > 0 {
							d = 1
							if bo.Op == token.SUB {
								d = -1
							}
						}
					}
				}
			}
			if d == 0 || (dir[c] != 0 && dir[c] != d) {
				bad[c] = true
			}
			dir[c] = d
		}
	}
	for c := range bad {
		delete(dir, c)
	}
	return dir
}

func (x *Exec) enterLoop(fr *Frame, li *loopInfo, st *State) {
	// 1. invariant on entry
	for i, c := range li.inv {
		g := x.evalClause(fr, c, st, fr.entry, nil)
		x.oblige(fr, st, "invariant", fmt.Sprintf("loop%d[%d]/entry", li.ordinal, i+1), "loop invariant holds on entry: "+c.Src, c.Pos, g, c.Props)
	}
	// 2. havoc
	cells, keys, all := x.loopWrites(fr, li)
	// ghost call counters bumped by calls inside the loop have an unknown value in an arbitrary
	// iteration (and after the loop) unless an invariant says otherwise
	for _, name := range x.loopCounters(li) {
		keys["cnt|"+name] = SInt
	}
	if all {
		x.havocAll(st)
	}
	for _, k := range sortedKeys(keys) {
		if li.appendOnly[k] && strings.HasPrefix(k, "elems|") {
			// only append() writes these element arrays inside the loop, and append writes into a
			// backing array it allocates: arrays that existed before the loop are unchanged
			oldT := x.heapGet(st, k, keys[k])
			x.havocKey(st, k, keys[k])
			x.vc.ctr++
			q := Term{fmt.Sprintf("o!q%d", x.vc.ctr), SInt}
			body := Implies(Gt(q, IntLit(0)), Eq(Select(st.heap[k], q), Select(oldT, q)))
			x.assume(st, Term{fmt.Sprintf("(forall ((%s Int)) (! %s :pattern (%s)))", q.S, body.S, Select(st.heap[k], q).S), SBool})
			continue
		}
		x.havocKey(st, k, keys[k])
	}
	var cs []*ssa.Alloc
	for c := range cells {
		cs = append(cs, c)
	}
	sort.Slice(cs, func(i, j int) bool {
		return cs[i].Pos() < cs[j].Pos() || (cs[i].Pos() == cs[j].Pos() && cs[i].Name() < cs[j].Name())
	})
	mono := monotoneCells(li)
	for _, c := range cs {
		if old, ok := st.cells[c]; ok {
			nv := x.fresh(c.Type().(*types.Pointer).Elem(), "lp."+c.Comment)
			if os, isS := old.(VSlice); isS && os.Back.Imm.Valid() {
				// a slice variable that held a configuration object's slice before the loop may
				// still hold it in an arbitrary iteration
				if ns, ok := nv.(VSlice); ok {
					ns.Back.Imm, ns.Back.ImmType = os.Back.Imm, os.Back.ImmType
					nv = ns
				}
			}
			st.cells[c] = nv
			// inferred invariant: cells only ever incremented (decremented) by positive constants
			if dir, ok := mono[c]; ok {
				if ot, ok1 := old.(VTerm); ok1 {
					if nt, ok2 := nv.(VTerm); ok2 && ot.T.Sort == SInt {
						if dir > 0 {
							x.assume(st, Ge(nt.T, ot.T))
						} else {
							x.assume(st, Le(nt.T, ot.T))
						}
					}
				}
			}
		}
	}
	// 3. assume invariant
	for _, c := range li.inv {
		g := x.evalClause(fr, c, st, fr.entry, nil)
		x.assume(st, g)
	}
	li.snap = st.clone()
	if li.dec != nil {
		li.decVal = x.evalMeasure(fr, li.dec, st)
	}
}

func (x *Exec) backEdge(fr *Frame, li *loopInfo, st *State, from *ssa.BasicBlock) {
	for i, c := range li.inv {
		g := x.evalClause(fr, c, st, fr.entry, nil)
		x.oblige(fr, st, "invariant", fmt.Sprintf("loop%d[%d]/preserved", li.ordinal, i+1), "loop invariant preserved: "+c.Src, c.Pos, g, c.Props)
	}
	if li.dec != nil && li.decVal != nil {
		nv := x.evalMeasure(fr, li.dec, st)
		// lexicographic decrease, every component bounded below by 0
		var lex Term = TFalse
		for i := len(nv) - 1; i >= 0; i-- {
			lex = Or(And(Lt(nv[i], li.decVal[i]), Ge(li.decVal[i], IntLit(0))), And(Eq(nv[i], li.decVal[i]), lex))
		}
		x.oblige(fr, st, "decreases", fmt.Sprintf("loop%d", li.ordinal), "loop measure decreases: "+li.dec.Src, li.dec.Pos, lex, li.dec.Props)
	}
}

// ---------------------------------------------------------------------------------------------
// instructions

func (x *Exec) execInstr(fr *Frame, st *State, in ssa.Instruction) {
	x.curSt = st
	switch in := in.(type) {
	case *ssa.DebugRef:
	case *ssa.Alloc:
		fr.regs[in] = x.alloc(fr, st, in)
	case *ssa.Store:
		x.store(fr, st, x.val(fr, in.Addr), x.val(fr, in.Val), in.Pos(), in.Addr)
	case *ssa.UnOp:
		fr.regs[in] = x.unop(fr, st, in)
	case *ssa.BinOp:
		fr.regs[in] = x.binop(fr, st, in)
	case *ssa.FieldAddr:
		fr.regs[in] = x.fieldAddr(fr, st, in)
	case *ssa.Field:
		v := x.val(fr, in.X)
		if s, ok := v.(VStruct); ok && in.Field < len(s.F) {
			fr.regs[in] = s.F[in.Field]
		} else {
			fr.regs[in] = x.fresh(in.Type(), "field")
		}
	case *ssa.IndexAddr:
		fr.regs[in] = x.indexAddr(fr, st, in)
	case *ssa.Index:
		fr.regs[in] = x.index(fr, st, in)
	case *ssa.Slice:
		fr.regs[in] = x.slice(fr, st, in)
	case *ssa.Extract:
		v := x.val(fr, in.Tuple)
		if s, ok := v.(VStruct); ok && in.Index < len(s.F) {
			fr.regs[in] = s.F[in.Index]
		} else {
			fr.regs[in] = x.fresh(in.Type(), "extract")
		}
	case *ssa.Convert:
		fr.regs[in] = x.convert(fr, st, in)
	case *ssa.ChangeType:
		fr.regs[in] = x.val(fr, in.X)
	case *ssa.ChangeInterface:
		fr.regs[in] = x.val(fr, in.X)
	case *ssa.MakeInterface:
		fr.regs[in] = x.makeIface(fr, st, x.val(fr, in.X), in.X.Type())
	case *ssa.TypeAssert:
		fr.regs[in] = x.typeAssert(fr, st, in)
	case *ssa.MakeClosure:
		var bind []Value
		for _, b := range in.Bindings {
			bind = append(bind, x.val(fr, b))
		}
		fr.regs[in] = VFunc{Fn: in.Fn.(*ssa.Function), Bind: bind}
	case *ssa.MakeSlice:
		l := x.val(fr, in.Len).(VTerm).T
		c := x.val(fr, in.Cap).(VTerm).T
		x.oblige(fr, st, "bounds", "make:"+x.srcText(fr.fn, in.Pos(), isCall), "make([]T, len, cap): 0 <= len <= cap", in.Pos(), And(Ge(l, IntLit(0)), Le(l, c)), nil)
		ref := x.newRef(fr)
		fr.regs[in] = VSlice{Backing{Heap: true, Ref: ref}, IntLit(0), l, c}
	case *ssa.MakeMap:
		ref := x.newRef(fr)
		x.mapInit(st, in.Type(), ref)
		x.freshMapUnreferenced(st, ref, in.Type())
		fr.regs[in] = VTerm{ref}
	case *ssa.MapUpdate:
		x.mapUpdate(fr, st, in)
	case *ssa.Lookup:
		fr.regs[in] = x.lookup(fr, st, in)
	case *ssa.Range:
		fr.regs[in] = x.val(fr, in.X)
	case *ssa.Next:
		fr.regs[in] = x.next(fr, st, in)
	case *ssa.Call:
		fr.regs[in] = x.call(fr, st, in, in.Common(), in.Type())
	case *ssa.Defer:
		var args []Value
		for _, a := range in.Call.Args {
			args = append(args, x.val(fr, a))
		}
		var fv Value
		if !in.Call.IsInvoke() {
			fv = x.val(fr, in.Call.Value)
		} else {
			fv = x.val(fr, in.Call.Value)
		}
		st.defers[in] = deferRec{Active: TTrue, Args: args, Fn: fv}
	case *ssa.RunDefers:
		x.runDefers(fr, st)
	case *ssa.Go, *ssa.Select, *ssa.Send:
		x.unsupported = append(x.unsupported, fmt.Sprintf("%s: %T", fr.fn.Name(), in))
		x.vc.note("concurrency instruction %T not modelled in %s", in, fr.fn.Name())
	case *ssa.SliceToArrayPointer, *ssa.MultiConvert:
		fr.regs[in.(ssa.Value)] = x.fresh(in.(ssa.Value).Type(), "conv")
	default:
		if v, ok := in.(ssa.Value); ok {
			fr.regs[v] = x.fresh(v.Type(), "unk")
		}
		x.vc.note("instruction %T not modelled", in)
	}
}

func isCall(n ast.Node) bool  { _, ok := n.(*ast.CallExpr); return ok }
func isIndex(n ast.Node) bool { _, ok := n.(*ast.IndexExpr); return ok }
func isAny(n ast.Node) bool {
	switch n.(type) {
	case *ast.AssignStmt, *ast.IncDecStmt, *ast.CallExpr, *ast.ExprStmt:
		return true
	}
	return false
}
func isSliceE(n ast.Node) bool {
	_, ok := n.(*ast.SliceExpr)
	return ok
}
func isSel(n ast.Node) bool { _, ok := n.(*ast.SelectorExpr); return ok }

func (x *Exec) newRef(fr *Frame) Term {
	x.allocCtr++
	inLoop := false
	for _, li := range fr.loops {
		if li.body[fr.curBlk] {
			inLoop = true
		}
	}
	if inLoop || len(x.inlineStack) > 0 && x.inlinedInLoop {
		t := x.vc.Fresh("new", SInt)
		x.vc.Assert(Lt(t, IntLit(-1000000*x.allocCtr)))
		x.vc.Assert(Gt(t, IntLit(-1000000*(x.allocCtr+1))))
		// freshness: the new object is none of the objects the function holds a reference to
		// (objects allocated by earlier iterations share the symbolic range of this site)
		var refs []Term
		seen := map[string]bool{}
		add := func(r Term) {
			if _, isLit := r.Lit(); isLit || r.Sort != SInt || seen[r.S] || strings.Contains(r.S, "!q") {
				return
			}
			seen[r.S] = true
			refs = append(refs, r)
		}
		var walk func(v Value, typ types.Type)
		walk = func(v Value, typ types.Type) {
			switch vv := v.(type) {
			case VSlice:
				if vv.Back.Heap {
					add(vv.Back.Ref)
				}
			case VIface:
				add(vv.Val)
			case VTerm:
				if typ != nil {
					switch typ.Underlying().(type) {
					case *types.Pointer, *types.Map, *types.Chan:
						add(vv.T)
					}
				}
			case VStruct:
				if typ != nil {
					if stt, ok := typ.Underlying().(*types.Struct); ok && stt.NumFields() == len(vv.F) {
						for i, f := range vv.F {
							walk(f, stt.Field(i).Type())
						}
					}
				}
			}
		}
		for r, v := range fr.regs {
			walk(v, r.Type())
		}
		if x.curSt != nil {
			for c, v := range x.curSt.cells {
				if pt, ok := c.Type().Underlying().(*types.Pointer); ok {
					walk(v, pt.Elem())
				}
			}
		}
		sort.Slice(refs, func(i, j int) bool { return refs[i].S < refs[j].S })
		for _, r := range refs {
			x.vc.Assert(Neq(t, r))
		}
		return t
	}
	return IntLit(-x.allocCtr)
}

func (x *Exec) alloc(fr *Frame, st *State, in *ssa.Alloc) Value {
	et := in.Type().(*types.Pointer).Elem()
	if stt, key := structOf(et); stt != nil && kindOf(et) == KStruct {
		ref := x.newRef(fr)
		x.storeStruct(st, ref, stt, key, x.zero(et).(VStruct))
		return VTerm{ref}
	}
	st.cells[in] = x.zero(et)
	return VAddr{Kind: ALocal, Cell: in, ElemT: et}
}

// ---- heap access for struct objects

func fieldKey(skey string, st *types.Struct, i int) string {
	return skey + "." + st.Field(i).Name()
}

func (x *Exec) subRef(obj Term, skey string, st *types.Struct, i int) Term {
	// an embedded struct of an object allocated by this function is itself a new object
	if isFreshRef(obj) {
		k := obj.S + "|" + fieldKey(skey, st, i)
		if t, ok := x.subLits[k]; ok {
			return t
		}
		x.allocCtr++
		t := IntLit(-x.allocCtr)
		x.subLits[k] = t
		// the same object reached through a non-literal alias of the parent
		if !strings.HasPrefix(obj.S, "new!") {
			f := x.vc.Fun("sub|"+fieldKey(skey, st, i), []Sort{SInt}, SInt)
			x.vc.Assert(Eq(app(SInt, f, obj), t))
		}
		return t
	}
	f := x.vc.Fun("sub|"+fieldKey(skey, st, i), []Sort{SInt}, SInt)
	t := app(SInt, f, obj)
	// an embedded struct of a pre-existing object is a pre-existing (non-nil) object
	x.fact("sub:"+t.S, Implies(Gt(obj, IntLit(0)), Gt(t, IntLit(0))))
	return t
}

func (x *Exec) loadField(st *State, obj Term, stt *types.Struct, skey string, i int) Value {
	ft := stt.Field(i).Type()
	key := fieldKey(skey, stt, i)
	switch kindOf(ft) {
	case KStruct:
		s2, k2 := structOf(ft)
		return x.loadStruct(st, x.subRef(obj, skey, stt, i), s2, k2)
	case KIface:
		tag := Select(x.heapGet(st, key+"#t", arrOf(SInt)), obj)
		x.fact("tag:"+tag.S, Ge(tag, IntLit(0)))
		x.ifaceTyping(tag, ft)
		val := Select(x.heapGet(st, key+"#v", arrOf(SInt)), obj)
		if ft.String() == "error" || x.eng.onlyRefImplementers(ft) {
			x.entryRefFact(val)
		}
		return VIface{tag, val}
	case KSlice:
		x.notFutureRef(Select(x.heapGet(st, key+"#b", arrOf(SInt)), obj))
		imm, immT := Term{}, ""
		if x.eng.contracts.Immutable[skey] != nil && !isFreshRef(obj) {
			imm, immT = Select(x.heapGet(st, key+"#b", arrOf(SInt)), obj), skey
		}
		sv := VSlice{Backing{Heap: true, Ref: Select(x.heapGet(st, key+"#b", arrOf(SInt)), obj), Imm: imm, ImmType: immT},
			Select(x.heapGet(st, key+"#o", arrOf(SInt)), obj), Select(x.heapGet(st, key+"#l", arrOf(SInt)), obj), Select(x.heapGet(st, key+"#c", arrOf(SInt)), obj)}
		if k := "slice:" + sv.Len.S + "|" + st.pc.S; !x.vc.declared[k] && !strings.Contains(sv.Len.S, "!q") {
			x.vc.declared[k] = true
			x.assume(st, And(Ge(sv.Off, IntLit(0)), Ge(sv.Len, IntLit(0)), Le(sv.Len, sv.Cap), Le(sv.Cap, BigLit(pow2(48)))))
		}
		return sv
	case KAddr:
		return VAddr{Kind: AOpaque, Opaque: Select(x.heapGet(st, key, arrOf(SInt)), obj), ElemT: ft.Underlying().(*types.Pointer).Elem()}
	default:
		s, _ := scalarSort(ft)
		t := Select(x.heapGet(st, key, arrOf(s)), obj)
		if kindOf(ft) == KMap {
			if x.fieldTypeKey == nil {
				x.fieldTypeKey = map[string]string{}
			}
			x.fieldTypeKey[key] = typeKey(ft)
		}
		if s == SStr {
			x.vc.strFacts(t)
		}
		if kindOf(ft) == KInt {
			// path-conditional: a heap array merged from several paths holds, on the paths that
			// did not store into it, whatever the other paths' expression evaluates to there
			// (e.g. an unchecked conversion that is only known to be in range where it ran);
			// a global range fact about such a load would make those paths infeasible
			if k := "rng:" + t.S + "|" + st.pc.S; !x.vc.declared[k] && !strings.Contains(t.S, "!q") {
				x.vc.declared[k] = true
				x.assume(st, x.rangeFact(t, ft))
			}
		}
		if k := kindOf(ft); k == KRef || k == KMap {
			x.entryRefFact(t)
			x.notFutureRef(t)
		}
		x.typeInvFact(st, t, ft)
		return VTerm{t}
	}
}

// typeInvFact assumes the declared invariant of an immutable configuration object when a pointer
// to it is read (see TypeInv).
func (x *Exec) typeInvFact(st *State, ptr Term, typ types.Type) {
	p, ok := typ.(*types.Pointer)
	if !ok || x.inTypeInv || x.top == nil {
		return
	}
	n, ok := p.Elem().(*types.Named)
	if !ok {
		return
	}
	ti := x.eng.contracts.TypeInvs[n.Obj().Name()]
	if ti == nil || ti.Except[fnKey(x.top, x.eng.home)] {
		return
	}
	if strings.Contains(ptr.S, "!q") {
		return
	}
	pred := x.eng.contracts.Preds[ti.Pred]
	if pred == nil || len(pred.Params) != 1 {
		return
	}
	env := x.newEnv(&Frame{fn: x.top, regs: map[ssa.Value]Value{}}, st, st, map[string]TV{pred.Params[0]: {VTerm{ptr}, typ}}, x.top)
	wasSpec := x.inSpec
	x.inSpec, x.inTypeInv = true, true
	g := env.evalBool(pred.Body)
	x.inSpec, x.inTypeInv = wasSpec, false
	// configuration objects are immutable: the invariant is (re-)assumed in every state in which
	// the pointer is read, i.e. once per distinct instantiation over the current heap arrays
	key := "typeinv:" + ptr.S + "|" + g.S + "|" + st.pc.S
	if x.vc.declared[key] {
		return
	}
	x.vc.declared[key] = true
	if env.err == nil {
		x.vc.assumption("configuration objects of type %s satisfy %s once NewTranscoder has returned (established by the registration functions)", ti.Type, ti.Pred)
		x.assume(st, Implies(Neq(ptr, IntLit(0)), g))
	}
}

// entryRefFact: a reference read directly from an entry-state heap array denotes an object that
// existed before the call, hence none of the (negative) objects allocated by this function.
func (x *Exec) entryRefFact(t Term) {
	if !strings.HasPrefix(t.S, "(select |H!") {
		return
	}
	parts := splitTop(t.S[1 : len(t.S)-1])
	if len(parts) == 3 && strings.HasSuffix(parts[1], "@0|") {
		x.fact("pre:"+t.S, Ge(t, IntLit(0)))
	}
}

// notFutureRef: a reference read from the heap now cannot denote an object this function allocates
// later. Objects allocated by the function are the literals -1, -2, ... in allocation order, so the
// value is at least -(number of allocations so far).
func (x *Exec) notFutureRef(t Term) {
	if _, isLit := t.Lit(); isLit || strings.Contains(t.S, "!q") {
		return
	}
	// (objects allocated inside loops are symbolic references below -1000000 and are not constrained)
	x.fact(fmt.Sprintf("nf:%s@%d", t.S, x.allocCtr), Or(Ge(t, IntLit(-x.allocCtr)), Lt(t, IntLit(-1000000))))
}

// immutCheck: a write to an object of a type declared `immutable` is allowed only while the object
// is one this function allocated itself (configuration is built once, by the registration
// functions listed in the declaration, and never written afterwards).
func (x *Exec) immutCheck(fr *Frame, st *State, typeKey string, obj Term, what string, pos token.Pos) {
	im := x.eng.contracts.Immutable[typeKey]
	if im == nil || x.top == nil || x.inSpec {
		return
	}
	if x.immutExcepted(im) {
		return
	}
	if isFreshRef(obj) {
		return
	}
	x.oblige(fr, st, "immut", what+":"+x.srcText(fr.fn, pos, isAny), "write to immutable configuration object ("+what+") outside the registration functions", pos, Lt(obj, IntLit(0)), []string{"C15", "C17"})
}

func (x *Exec) immutExcepted(im *TypeInv) bool {
	excepted := func(k string) bool {
		if im.Except[k] {
			return true
		}
		for e := range im.Except {
			if strings.HasSuffix(e, "*") && strings.HasPrefix(k, e[:len(e)-1]) {
				return true
			}
		}
		return false
	}
	if excepted(fnKey(x.top, x.eng.home)) {
		return true
	}
	for _, f := range x.inlineStack {
		if excepted(fnKey(f, x.eng.home)) {
			return true
		}
	}
	return false
}

// fact asserts a type-level fact about a term once.
func (x *Exec) fact(key string, f Term) {
	if x.vc.declared[key] || strings.Contains(key, "!q") {
		return
	}
	x.vc.declared[key] = true
	x.vc.Assert(f)
}

func isFreshRef(obj Term) bool {
	if l, ok := obj.Lit(); ok && l.Sign() < 0 {
		return true
	}
	return strings.HasPrefix(obj.S, "new!")
}

func (x *Exec) storeField(st *State, obj Term, stt *types.Struct, skey string, i int, v Value) {
	if isFreshRef(obj) && !x.freshStore {
		x.freshStore = true
		defer func() { x.freshStore = false }()
	}
	ft := stt.Field(i).Type()
	key := fieldKey(skey, stt, i)
	switch kindOf(ft) {
	case KStruct:
		s2, k2 := structOf(ft)
		if sv, ok := v.(VStruct); ok {
			x.storeStruct(st, x.subRef(obj, skey, stt, i), s2, k2, sv)
		}
	case KIface:
		iv, ok := v.(VIface)
		if !ok {
			iv = x.fresh(ft, "iface").(VIface)
		}
		x.heapSet(st, key+"#t", Store(x.heapGet(st, key+"#t", arrOf(SInt)), obj, iv.Tag))
		x.heapSet(st, key+"#v", Store(x.heapGet(st, key+"#v", arrOf(SInt)), obj, iv.Val))
	case KSlice:
		sv, ok := v.(VSlice)
		if !ok || !sv.Back.Heap {
			sv = x.fresh(ft, "slice").(VSlice)
			x.vc.note("slice over a local array stored to the heap: havocked")
		}
		x.heapSet(st, key+"#b", Store(x.heapGet(st, key+"#b", arrOf(SInt)), obj, sv.Back.Ref))
		x.heapSet(st, key+"#o", Store(x.heapGet(st, key+"#o", arrOf(SInt)), obj, sv.Off))
		x.heapSet(st, key+"#l", Store(x.heapGet(st, key+"#l", arrOf(SInt)), obj, sv.Len))
		x.heapSet(st, key+"#c", Store(x.heapGet(st, key+"#c", arrOf(SInt)), obj, sv.Cap))
	default:
		s, _ := scalarSort(ft)
		var t Term
		switch vv := v.(type) {
		case VTerm:
			t = vv.T
		case VAddr:
			if vv.Kind == AOpaque {
				t = vv.Opaque
			} else {
				t = x.vc.Fresh("addr", SInt)
			}
		case VFunc:
			if vv.T.Valid() {
				t = vv.T
			} else {
				t = x.funcTerm(vv)
			}
		default:
			t = x.vc.Fresh("v", s)
		}
		if t.Sort != s {
			t = x.vc.Fresh("v", s)
		}
		x.heapSet(st, key, Store(x.heapGet(st, key, arrOf(s)), obj, t))
	}
}

func (x *Exec) funcTerm(f VFunc) Term {
	if f.Fn != nil {
		c := x.vc.Const("fn|"+f.Fn.String(), SInt)
		return c
	}
	return x.vc.Fresh("fn", SInt)
}

func (x *Exec) loadStruct(st *State, obj Term, stt *types.Struct, skey string) VStruct {
	v := VStruct{}
	for i := 0; i < stt.NumFields(); i++ {
		v.F = append(v.F, x.loadField(st, obj, stt, skey, i))
	}
	return v
}

func (x *Exec) storeStruct(st *State, obj Term, stt *types.Struct, skey string, v VStruct) {
	for i := 0; i < stt.NumFields() && i < len(v.F); i++ {
		x.storeField(st, obj, stt, skey, i, v.F[i])
	}
}

// ---- generic load / store through an address value

func (x *Exec) load(fr *Frame, st *State, addr Value, typ types.Type, pos token.Pos) Value {
	switch a := addr.(type) {
	case VTerm: // ref to struct
		stt, key := structOf(typ)
		if stt == nil {
			return x.fresh(typ, "ld")
		}
		x.nilCheck(fr, st, a.T, pos)
		return x.loadStruct(st, a.T, stt, key)
	case VAddr:
		return x.loadAddr(fr, st, a, typ, pos)
	}
	return x.fresh(typ, "ld")
}

func (x *Exec) loadAddr(fr *Frame, st *State, a VAddr, typ types.Type, pos token.Pos) Value {
	switch a.Kind {
	case ALocal:
		if v, ok := st.cells[a.Cell]; ok {
			return v
		}
		v := x.fresh(typ, a.Cell.Comment)
		st.cells[a.Cell] = v
		return v
	case AField:
		return x.loadField(st, a.Obj, a.St, a.SKey, a.Idx)
	case AGlobal:
		return x.loadGlobal(st, a.Glob, typ)
	case AElem:
		if a.Base != nil {
			arr := x.loadAddr(fr, st, *a.Base, nil, pos)
			if at, ok := arr.(VTerm); ok && strings.HasPrefix(string(at.T.Sort), "(Array") {
				t := Select(at.T, a.Index)
				if t.Sort == SStr {
					x.vc.strFacts(t)
				}
				return VTerm{t}
			}
			return x.fresh(typ, "elem")
		}
		return x.loadElem(fr, st, *a.Back, a.Index, typ)
	}
	return x.fresh(typ, "ld")
}

func elemsKey(et types.Type) (string, Sort, bool) {
	switch kindOf(et) {
	case KStruct, KIface, KSlice, KTuple:
		return "", "", false
	}
	s, ok := scalarSort(et)
	if !ok {
		return "", "", false
	}
	return "elems|" + string(s), arrOf(arrOf(s)), true
}

func (x *Exec) loadElem(fr *Frame, st *State, b Backing, idx Term, et types.Type) Value {
	if !b.Heap {
		arr := x.loadAddr(fr, st, *b.Loc, nil, token.NoPos)
		if at, ok := arr.(VTerm); ok && strings.HasPrefix(string(at.T.Sort), "(Array") {
			return VTerm{Select(at.T, idx)}
		}
		return x.fresh(et, "elem")
	}
	switch kindOf(et) {
	case KStruct:
		stt, key := structOf(et)
		return x.loadStruct(st, app(SInt, "elemref", b.Ref, idx), stt, key)
	case KIface:
		tag := Select(Select(x.heapGet(st, "elems|iface#t", arrOf(arrOf(SInt))), b.Ref), idx)
		if n, ok := et.(*types.Named); ok && n.Obj().Pkg() != nil && strings.HasSuffix(n.Obj().Pkg().Path(), "reflect/protoreflect") {
			// descriptor slices built by the protobuf runtime / makeTarget never hold nil entries
			// (not for arrays the function under verification allocated itself - there the claim
			// is what has to be proved, see resolvePathToFieldDescriptors - and not inside specs)
			_, own := b.Ref.Lit()
			if !own && !x.inSpec && !strings.Contains(tag.S, "!q") {
				x.vc.assumption("slices of protoreflect descriptors received from elsewhere contain no nil entries")
				x.assume(st, Gt(tag, IntLit(0)))
			}
		}
		return VIface{tag, Select(Select(x.heapGet(st, "elems|iface#v", arrOf(arrOf(SInt))), b.Ref), idx)}
	case KSlice:
		return x.fresh(et, "elem")
	}
	key, s, ok := elemsKey(et)
	if !ok {
		return x.fresh(et, "elem")
	}
	t := Select(Select(x.heapGet(st, key, s), b.Ref), idx)
	if t.Sort == SStr {
		x.vc.strFacts(t)
	}
	if kindOf(et) == KInt && !strings.Contains(t.S, "!q") {
		x.vc.Assert(x.rangeFact(t, et))
	}
	return VTerm{t}
}

func (x *Exec) storeElem(fr *Frame, st *State, b Backing, idx Term, et types.Type, v Value) {
	if b.Heap && b.Imm.Valid() && !x.inSpec {
		// element write through a slice that was read from a configuration object
		if im := x.eng.contracts.Immutable[b.ImmType]; im != nil && x.top != nil && !x.immutExcepted(im) {
			x.oblige(fr, st, "immut", "elem:"+b.ImmType, "element write into a slice that belongs to an immutable configuration object ("+b.ImmType+")", fr.curPos, Neq(b.Ref, b.Imm), []string{"C15", "C17"})
		}
	}
	if !b.Heap {
		arr := x.loadAddr(fr, st, *b.Loc, nil, token.NoPos)
		if at, ok := arr.(VTerm); ok && strings.HasPrefix(string(at.T.Sort), "(Array") {
			if vt, ok := v.(VTerm); ok && vt.T.Sort == elemSort(at.T.Sort) {
				x.storeAddr(fr, st, *b.Loc, VTerm{Store(at.T, idx, vt.T)}, token.NoPos)
			}
		}
		return
	}
	switch kindOf(et) {
	case KStruct:
		stt, key := structOf(et)
		if sv, ok := v.(VStruct); ok {
			x.storeStruct(st, app(SInt, "elemref", b.Ref, idx), stt, key, sv)
		}
		return
	case KIface:
		if iv, ok := v.(VIface); ok {
			ht := x.heapGet(st, "elems|iface#t", arrOf(arrOf(SInt)))
			hv := x.heapGet(st, "elems|iface#v", arrOf(arrOf(SInt)))
			x.heapSet(st, "elems|iface#t", Store(ht, b.Ref, Store(Select(ht, b.Ref), idx, iv.Tag)))
			x.heapSet(st, "elems|iface#v", Store(hv, b.Ref, Store(Select(hv, b.Ref), idx, iv.Val)))
		}
		return
	}
	key, s, ok := elemsKey(et)
	if !ok {
		return
	}
	if vt, ok := v.(VTerm); ok && vt.T.Sort == elemSort(elemSort(s)) {
		h := x.heapGet(st, key, s)
		x.heapSet(st, key, Store(h, b.Ref, Store(Select(h, b.Ref), idx, vt.T)))
	}
}

func (x *Exec) loadGlobal(st *State, g *ssa.Global, typ types.Type) Value {
	if typ == nil {
		typ = g.Type().(*types.Pointer).Elem()
	}
	name := "glob|" + g.Pkg.Pkg.Name() + "." + g.Name()
	if init, ok := x.eng.globalArrays[g]; ok {
		// constant table: build store chain once
		c := x.vc.Const(name, SArr)
		if !x.vc.declared["init:"+name] {
			x.vc.declared["init:"+name] = true
			for i, v := range init {
				x.vc.Assert(Eq(Select(c, IntLit(int64(i))), IntLit(v)))
			}
		}
		return VTerm{c}
	}
	switch kindOf(typ) {
	case KIface:
		tg, vl := x.heapScalar(st, name+"#t", SInt), x.heapScalar(st, name+"#v", SInt)
		if strings.HasSuffix(tg.S, "@0|") {
			// package-level values exist before the call: not one of this function's allocations
			x.fact("globtag:"+tg.S, Ge(tg, IntLit(0)))
			if typ.String() == "error" {
				x.fact("globval:"+vl.S, Ge(vl, IntLit(0)))
			}
			if !x.eng.isHome(g.Pkg.Pkg) {
				// a package-level interface variable of another package (io.Discard, io.EOF, ...)
				// does not hold a value of one of this package's types
				var cs []Term
				for _, t := range x.eng.concreteTypes {
					cs = append(cs, Neq(tg, IntLit(x.eng.typeTag(t))))
				}
				x.fact("globext:"+tg.S, And(cs...))
			}
		}
		return VIface{tg, vl}
	case KStruct, KSlice, KTuple:
		return x.fresh(typ, g.Name())
	case KAddr:
		return VAddr{Kind: AOpaque, Opaque: x.heapScalar(st, name, SInt), ElemT: typ.Underlying().(*types.Pointer).Elem()}
	}
	s, _ := scalarSort(typ)
	t := x.heapScalar(st, name, s)
	if _, isPtr := typ.Underlying().(*types.Pointer); isPtr && strings.HasSuffix(t.S, "@0|") {
		x.fact("globref:"+t.S, Ge(t, IntLit(0)))
	}
	return VTerm{t}
}

// heapScalar: a heap key holding a plain value rather than an array (globals, ghost variables).
func (x *Exec) heapScalar(st *State, key string, s Sort) Term {
	return x.heapGet(st, key, s)
}

func (x *Exec) store(fr *Frame, st *State, addr Value, v Value, pos token.Pos, addrV ssa.Value) {
	switch a := addr.(type) {
	case VTerm:
		typ := addrV.Type().Underlying().(*types.Pointer).Elem()
		stt, key := structOf(typ)
		if stt == nil {
			return
		}
		x.nilCheck(fr, st, a.T, pos)
		if sv, ok := v.(VStruct); ok {
			x.storeStruct(st, a.T, stt, key, sv)
		}
	case VAddr:
		x.storeAddr(fr, st, a, v, pos)
	}
}

func (x *Exec) storeAddr(fr *Frame, st *State, a VAddr, v Value, pos token.Pos) {
	switch a.Kind {
	case ALocal:
		st.cells[a.Cell] = v
	case AField:
		x.immutCheck(fr, st, a.SKey, a.Obj, a.SKey+"."+a.St.Field(a.Idx).Name(), pos)
		x.storeField(st, a.Obj, a.St, a.SKey, a.Idx, v)
	case AGlobal:
		name := "glob|" + a.Glob.Pkg.Pkg.Name() + "." + a.Glob.Name()
		switch vv := v.(type) {
		case VTerm:
			x.heapSet(st, name, vv.T)
		case VIface:
			x.heapSet(st, name+"#t", vv.Tag)
			x.heapSet(st, name+"#v", vv.Val)
		}
	case AElem:
		if a.Base != nil {
			arr := x.loadAddr(fr, st, *a.Base, nil, pos)
			if at, ok := arr.(VTerm); ok && strings.HasPrefix(string(at.T.Sort), "(Array") {
				if vt, ok := v.(VTerm); ok && vt.T.Sort == elemSort(at.T.Sort) {
					x.storeAddr(fr, st, *a.Base, VTerm{Store(at.T, a.Index, vt.T)}, pos)
				}
			}
			return
		}
		x.storeElem(fr, st, *a.Back, a.Index, a.ElemT, v)
	}
}

func (x *Exec) nilCheck(fr *Frame, st *State, ref Term, pos token.Pos) {
	if l, ok := ref.Lit(); ok && l.Sign() != 0 {
		return
	}
	if strings.HasPrefix(ref.S, "(sub!") || strings.HasPrefix(ref.S, "(|sub!") || strings.HasPrefix(ref.S, "(elemref") {
		return
	}
	key := fr.prefix + ref.S
	if b, ok := x.nilSeen[key]; ok && fr.curBlk != nil && b.Parent() == fr.curBlk.Parent() && b.Dominates(fr.curBlk) {
		return
	}
	x.nilSeen[key] = fr.curBlk
	txt := x.srcText(fr.fn, pos, isSel)
	if i := strings.LastIndex(txt, "."); i > 0 {
		txt = txt[:i]
	}
	x.oblige(fr, st, "nil", txt, "pointer "+txt+" is not nil when dereferenced", pos, Neq(ref, IntLit(0)), nil)
}

func (x *Exec) fieldAddr(fr *Frame, st *State, in *ssa.FieldAddr) Value {
	base := x.val(fr, in.X)
	stt, key := structOf(in.X.Type())
	bt, ok := base.(VTerm)
	if !ok || stt == nil {
		return x.fresh(in.Type(), "fa")
	}
	x.nilCheck(fr, st, bt.T, in.Pos())
	ft := stt.Field(in.Field).Type()
	if kindOf(ft) == KStruct {
		return VTerm{x.subRef(bt.T, key, stt, in.Field)}
	}
	return VAddr{Kind: AField, Obj: bt.T, St: stt, SKey: key, Idx: in.Field, ElemT: ft}
}

func (x *Exec) indexAddr(fr *Frame, st *State, in *ssa.IndexAddr) Value {
	base := x.val(fr, in.X)
	idx := x.val(fr, in.Index).(VTerm).T
	txt := x.srcText(fr.fn, in.Pos(), isIndex)
	switch xt := in.X.Type().Underlying().(type) {
	case *types.Slice:
		s, ok := base.(VSlice)
		if !ok {
			return x.fresh(in.Type(), "ia")
		}
		x.oblige(fr, st, "bounds", txt, "index in range: "+txt, in.Pos(), And(Ge(idx, IntLit(0)), Lt(idx, s.Len)), nil)
		pos := x.vc.Name(Add(s.Off, idx), "ix")
		if kindOf(xt.Elem()) == KStruct {
			if s.Back.Heap {
				return VTerm{app(SInt, "elemref", s.Back.Ref, pos)}
			}
			return VTerm{x.vc.Fresh("elem", SInt)}
		}
		b := s.Back
		return VAddr{Kind: AElem, Back: &b, Index: pos, ElemT: xt.Elem()}
	case *types.Pointer:
		at := xt.Elem().Underlying().(*types.Array)
		x.oblige(fr, st, "bounds", txt, "index in range: "+txt, in.Pos(), And(Ge(idx, IntLit(0)), Lt(idx, IntLit(at.Len()))), nil)
		if ba, ok := base.(VAddr); ok && ba.Kind != AOpaque {
			return VAddr{Kind: AElem, Base: &ba, Index: idx, ElemT: at.Elem()}
		}
		return VAddr{Kind: AOpaque, Opaque: x.vc.Fresh("ia", SInt), ElemT: at.Elem()}
	}
	return x.fresh(in.Type(), "ia")
}

func (x *Exec) index(fr *Frame, st *State, in *ssa.Index) Value {
	base := x.val(fr, in.X)
	idx := x.val(fr, in.Index).(VTerm).T
	txt := x.srcText(fr.fn, in.Pos(), isIndex)
	switch kindOf(in.X.Type()) {
	case KString:
		s := base.(VTerm).T
		x.oblige(fr, st, "bounds", txt, "string index in range: "+txt, in.Pos(), And(Ge(idx, IntLit(0)), Lt(idx, sLen(s))), nil)
		return VTerm{x.strAt(s, idx)}
	case KArray:
		at := in.X.Type().Underlying().(*types.Array)
		x.oblige(fr, st, "bounds", txt, "array index in range: "+txt, in.Pos(), And(Ge(idx, IntLit(0)), Lt(idx, IntLit(at.Len()))), nil)
		if bt, ok := base.(VTerm); ok && strings.HasPrefix(string(bt.T.Sort), "(Array") {
			return VTerm{Select(bt.T, idx)}
		}
	}
	return x.fresh(in.Type(), "idx")
}

func sLen(s Term) Term { return app(SInt, "sLen", s) }

// strAt builds sAt(s,i), looking through substrings structurally.
func (x *Exec) strAt(s, i Term) Term {
	if strings.HasPrefix(s.S, "(sSub ") {
		parts := splitTop(s.S[1 : len(s.S)-1])
		if len(parts) == 4 {
			return x.strAt(Term{parts[1], SStr}, Add(Term{parts[2], SInt}, i))
		}
	}
	if strings.HasPrefix(s.S, "(sCat ") {
		parts := splitTop(s.S[1 : len(s.S)-1])
		if len(parts) == 3 {
			a, b := Term{parts[1], SStr}, Term{parts[2], SStr}
			return Ite(Lt(i, sLen(a)), x.strAt(a, i), x.strAt(b, Sub(i, sLen(a))))
		}
	}
	t := app(SInt, "sAt", s, i)
	key := "byte:" + t.S
	if !x.vc.declared[key] && !strings.Contains(t.S, "!q") {
		x.vc.declared[key] = true
		x.vc.Assert(And(Ge(t, IntLit(0)), Le(t, IntLit(255))))
	}
	return t
}

func (x *Exec) strCat(a, b Term) Term {
	if a.S == "sEmpty" {
		return b
	}
	if b.S == "sEmpty" {
		return a
	}
	t := app(SStr, "sCat", a, b)
	key := "cat:" + t.S
	if !x.vc.declared[key] {
		x.vc.declared[key] = true
		x.vc.Assert(Eq(sLen(t), Add(sLen(a), sLen(b))))
		x.vc.strFacts(t)
		x.vc.Assert(Eq(app(SStr, "sSub", t, IntLit(0), sLen(a)), a))
		x.vc.Assert(Eq(app(SStr, "sSub", t, sLen(a), sLen(t)), b))
		x.vc.ctr++
		q := Term{fmt.Sprintf("i!q%d", x.vc.ctr), SInt}
		raw := app(SInt, "sAt", t, q)
		body := Implies(And(Le(IntLit(0), q), Lt(q, sLen(t))), Eq(raw, Ite(Lt(q, sLen(a)), x.strAt(a, q), x.strAt(b, Sub(q, sLen(a))))))
		x.vc.Assert(Term{fmt.Sprintf("(forall ((%s Int)) (! %s :pattern (%s)))", q.S, body.S, raw.S), SBool})
	}
	return t
}

func (x *Exec) strSub(s, lo, hi Term) Term {
	if l, ok := lo.Lit(); ok && l.Sign() == 0 && hi.S == sLen(s).S {
		return s
	}
	if strings.HasPrefix(s.S, "(sSub ") {
		parts := splitTop(s.S[1 : len(s.S)-1])
		if len(parts) == 4 {
			base := Term{parts[2], SInt}
			return x.strSub(Term{parts[1], SStr}, Add(base, lo), Add(base, hi))
		}
	}
	t := app(SStr, "sSub", s, lo, hi)
	key := "sub:" + t.S
	if !x.vc.declared[key] {
		x.vc.declared[key] = true
		x.vc.Assert(Implies(And(Le(IntLit(0), lo), Le(lo, hi), Le(hi, sLen(s))), Eq(sLen(t), Sub(hi, lo))))
		x.vc.strFacts(t)
		if !strings.Contains(t.S, "!q") {
			x.vc.ctr++
			q := Term{fmt.Sprintf("i!q%d", x.vc.ctr), SInt}
			raw := app(SInt, "sAt", t, q)
			body := Implies(And(Le(IntLit(0), q), Lt(q, Sub(hi, lo))), Eq(raw, x.strAt(s, Add(lo, q))))
			x.vc.Assert(Term{fmt.Sprintf("(forall ((%s Int)) (! %s :pattern (%s)))", q.S, body.S, raw.S), SBool})
		}
	}
	return t
}

func (x *Exec) slice(fr *Frame, st *State, in *ssa.Slice) Value {
	base := x.val(fr, in.X)
	get := func(v ssa.Value) (Term, bool) {
		if v == nil {
			return Term{}, false
		}
		return x.val(fr, v).(VTerm).T, true
	}
	lo, hasLo := get(in.Low)
	hi, hasHi := get(in.High)
	mx, hasMax := get(in.Max)
	if !hasLo {
		lo = IntLit(0)
	}
	txt := x.srcText(fr.fn, in.Pos(), isSliceE)
	switch xt := in.X.Type().Underlying().(type) {
	case *types.Basic: // string
		s := base.(VTerm).T
		if !hasHi {
			hi = sLen(s)
		}
		x.oblige(fr, st, "bounds", txt, "string slice bounds: "+txt, in.Pos(), And(Le(IntLit(0), lo), Le(lo, hi), Le(hi, sLen(s))), nil)
		return VTerm{x.strSub(s, lo, hi)}
	case *types.Slice:
		s, ok := base.(VSlice)
		if !ok {
			return x.fresh(in.Type(), "sl")
		}
		if !hasHi {
			hi = s.Len
		}
		if !hasMax {
			mx = s.Cap
		}
		x.oblige(fr, st, "bounds", txt, "slice bounds: "+txt, in.Pos(), And(Le(IntLit(0), lo), Le(lo, hi), Le(hi, mx), Le(mx, s.Cap)), nil)
		return VSlice{s.Back, x.vc.Name(Add(s.Off, lo), "so"), x.vc.Name(Sub(hi, lo), "sl"), x.vc.Name(Sub(mx, lo), "sc")}
	case *types.Pointer:
		at := xt.Elem().Underlying().(*types.Array)
		n := IntLit(at.Len())
		if !hasHi {
			hi = n
		}
		if !hasMax {
			mx = n
		}
		x.oblige(fr, st, "bounds", txt, "array slice bounds: "+txt, in.Pos(), And(Le(IntLit(0), lo), Le(lo, hi), Le(hi, mx), Le(mx, n)), nil)
		if ba, ok := base.(VAddr); ok && ba.Kind != AOpaque {
			// The array behind a composite slice literal ([]T{...}) or a variadic argument list is
			// a heap object that is completely initialised before it is sliced, and is reachable
			// only through the slice: give it a heap backing so that the slice can be stored in
			// fields and maps without losing its elements.
			if al, isAlloc := in.X.(*ssa.Alloc); isAlloc && al.Heap && (al.Comment == "slicelit" || al.Comment == "varargs") {
				if key, srt, okk := elemsKey(at.Elem()); okk {
					if arr, isT := x.loadAddr(fr, st, ba, nil, token.NoPos).(VTerm); isT && strings.HasPrefix(string(arr.T.Sort), "(Array") {
						ref := x.newRef(fr)
						x.heapSet(st, key, Store(x.heapGet(st, key, srt), ref, arr.T))
						return VSlice{Backing{Heap: true, Ref: ref}, lo, Sub(hi, lo), Sub(mx, lo)}
					}
				}
			}
			return VSlice{Backing{Loc: &ba}, lo, Sub(hi, lo), Sub(mx, lo)}
		}
		ref := x.vc.Fresh("arrback", SInt)
		return VSlice{Backing{Heap: true, Ref: ref}, lo, Sub(hi, lo), Sub(mx, lo)}
	}
	return x.fresh(in.Type(), "sl")
}

func (x *Exec) unop(fr *Frame, st *State, in *ssa.UnOp) Value {
	v := x.val(fr, in.X)
	switch in.Op {
	case token.MUL:
		return x.load(fr, st, v, in.Type(), in.Pos())
	case token.NOT:
		return VTerm{Not(v.(VTerm).T)}
	case token.SUB:
		t := v.(VTerm).T
		if t.Sort == SFP {
			return VTerm{app(SFP, "fp.neg", t)}
		}
		return VTerm{x.wrapTo(Neg(t), in.Type())}
	case token.XOR:
		t := v.(VTerm).T
		_, hi, _, signed := intRange(in.Type())
		if signed {
			return VTerm{Sub(Neg(t), IntLit(1))}
		}
		return VTerm{Sub(hi, t)}
	}
	x.vc.note("unary operator %s not modelled", in.Op)
	return x.fresh(in.Type(), "unop")
}

// wrapTo wraps an integer term into the range of typ (exact machine semantics).
func (x *Exec) wrapTo(t Term, typ types.Type) Term {
	if kindOf(typ) != KInt {
		return t
	}
	lo, hi, bits, signed := intRange(typ)
	if l, ok := t.Lit(); ok {
		ll, _ := lo.Lit()
		hl, _ := hi.Lit()
		if l.Cmp(ll) >= 0 && l.Cmp(hl) <= 0 {
			return t
		}
	}
	m := BigLit(pow2(bits))
	if signed {
		h := BigLit(pow2(bits - 1))
		return Sub(EMod(Add(t, h), m), h)
	}
	return EMod(t, m)
}

func (x *Exec) arithResult(fr *Frame, st *State, raw Term, typ types.Type, pos token.Pos, what string) Term {
	if kindOf(typ) != KInt {
		return raw
	}
	if _, ok := raw.Lit(); ok {
		return x.wrapTo(raw, typ)
	}
	lo, hi, _, _ := intRange(typ)
	switch x.arith {
	case "wrap":
		return x.vc.Name(x.wrapTo(raw, typ), "w")
	case "checked":
		r := x.vc.Name(raw, "a")
		x.oblige(fr, st, "overflow", x.srcText(fr.fn, pos, func(n ast.Node) bool { _, ok := n.(*ast.BinaryExpr); return ok }), "no integer overflow in "+what, pos, And(Le(lo, r), Le(r, hi)), nil)
		return r
	default:
		r := x.vc.Name(raw, "a")
		x.vc.assumption("machine arithmetic treated as mathematical (no overflow assumed) in %s", fr.fn.Name())
		x.assume(st, And(Le(lo, r), Le(r, hi)))
		return r
	}
}

func (x *Exec) binop(fr *Frame, st *State, in *ssa.BinOp) Value {
	a := x.val(fr, in.X)
	b := x.val(fr, in.Y)
	k := kindOf(in.X.Type())
	switch in.Op {
	case token.EQL, token.NEQ:
		eq := x.valuesEqual(a, b, in.X.Type())
		if in.Op == token.NEQ {
			eq = Not(eq)
		}
		return VTerm{eq}
	}
	at, ok1 := a.(VTerm)
	bt, ok2 := b.(VTerm)
	if !ok1 || !ok2 {
		return x.fresh(in.Type(), "binop")
	}
	A, B := at.T, bt.T
	if k == KFloat {
		switch in.Op {
		case token.ADD:
			return VTerm{app(SFP, "fp.add RNE", A, B)}
		case token.SUB:
			return VTerm{app(SFP, "fp.sub RNE", A, B)}
		case token.MUL:
			return VTerm{app(SFP, "fp.mul RNE", A, B)}
		case token.QUO:
			return VTerm{app(SFP, "fp.div RNE", A, B)}
		case token.LSS:
			return VTerm{app(SBool, "fp.lt", A, B)}
		case token.LEQ:
			return VTerm{app(SBool, "fp.leq", A, B)}
		case token.GTR:
			return VTerm{app(SBool, "fp.gt", A, B)}
		case token.GEQ:
			return VTerm{app(SBool, "fp.geq", A, B)}
		}
		return x.fresh(in.Type(), "fop")
	}
	if k == KString {
		switch in.Op {
		case token.ADD:
			return VTerm{x.strCat(A, B)}
		}
		x.vc.note("string comparison %s not modelled", in.Op)
		return x.fresh(in.Type(), "scmp")
	}
	if k == KBool {
		switch in.Op {
		case token.AND, token.LAND:
			return VTerm{And(A, B)}
		case token.OR, token.LOR:
			return VTerm{Or(A, B)}
		}
	}
	switch in.Op {
	case token.ADD:
		return VTerm{x.arithResult(fr, st, Add(A, B), in.Type(), in.Pos(), "+")}
	case token.SUB:
		return VTerm{x.arithResult(fr, st, Sub(A, B), in.Type(), in.Pos(), "-")}
	case token.MUL:
		prod := Mul(A, B)
		if r, ok := x.vc.splitOnLits(B, func(l Term) Term { return Mul(A, l) }); ok {
			prod = r
		} else if r, ok := x.vc.splitOnLits(A, func(l Term) Term { return Mul(l, B) }); ok {
			prod = r
		}
		return VTerm{x.arithResult(fr, st, prod, in.Type(), in.Pos(), "*")}
	case token.QUO:
		x.oblige(fr, st, "div", x.srcText(fr.fn, in.Pos(), nil), "division by zero", in.Pos(), Neq(B, IntLit(0)), nil)
		quo := TDiv(A, B)
		if r, ok := x.vc.splitOnLits(B, func(l Term) Term {
			if l.S == "0" {
				return IntLit(0)
			}
			return TDiv(A, l)
		}); ok {
			quo = r
		}
		return VTerm{x.vc.Name(x.wrapTo(quo, in.Type()), "q")}
	case token.REM:
		x.oblige(fr, st, "div", x.srcText(fr.fn, in.Pos(), nil), "modulo by zero", in.Pos(), Neq(B, IntLit(0)), nil)
		rem := TRem(A, B)
		if r, ok := x.vc.splitOnLits(B, func(l Term) Term {
			if l.S == "0" {
				return IntLit(0)
			}
			return TRem(A, l)
		}); ok {
			rem = r
		}
		return VTerm{x.vc.Name(rem, "r")}
	case token.LSS:
		return VTerm{Lt(A, B)}
	case token.LEQ:
		return VTerm{Le(A, B)}
	case token.GTR:
		return VTerm{Gt(A, B)}
	case token.GEQ:
		return VTerm{Ge(A, B)}
	case token.SHL:
		if l, ok := B.Lit(); ok && l.IsInt64() && l.Int64() < 64 {
			return VTerm{x.vc.Name(x.wrapTo(Mul(A, BigLit(pow2(int(l.Int64())))), in.Type()), "shl")}
		}
	case token.SHR:
		if l, ok := B.Lit(); ok && l.IsInt64() && l.Int64() < 64 {
			// arithmetic shift for signed (floor division), logical for unsigned: both are floor div
			return VTerm{x.vc.Name(EDiv(A, BigLit(pow2(int(l.Int64())))), "shr")}
		}
	case token.AND, token.OR, token.XOR, token.AND_NOT:
		if r, ok := x.bitop(in.Op, A, B, in.Type()); ok {
			return VTerm{x.vc.Name(r, "bit")}
		}
	}
	x.vc.note("binary operator %s on %s not modelled precisely", in.Op, in.X.Type())
	return x.fresh(in.Type(), "binop")
}

// bitop expands bitwise operations over the bits of the operand type (only for widths <= 32,
// or when one side is a literal).
func (x *Exec) bitop(op token.Token, a, b Term, typ types.Type) (Term, bool) {
	_, _, bits, signed := intRange(typ)
	if signed {
		// only non-negative operands are handled: conservatively give up for signed types
		// unless both are literals
		la, oka := a.Lit()
		lb, okb := b.Lit()
		if oka && okb {
			r := new(bigInt)
			switch op {
			case token.AND:
				r.And(la, lb)
			case token.OR:
				r.Or(la, lb)
			case token.XOR:
				r.Xor(la, lb)
			case token.AND_NOT:
				r.AndNot(la, lb)
			}
			return BigLit(r), true
		}
		return Term{}, false
	}
	lb, okb := b.Lit()
	la, oka := a.Lit()
	if !okb && oka && op != token.AND_NOT {
		a, b = b, a
		lb, okb = la, true
	}
	if !okb && bits > 8 {
		return Term{}, false
	}
	bit := func(t Term, i int) Term { return EMod(EDiv(t, BigLit(pow2(i))), IntLit(2)) }
	sum := IntLit(0)
	for i := 0; i < bits; i++ {
		var r Term
		ai := bit(a, i)
		if okb {
			bi := lb.Bit(i)
			switch op {
			case token.AND:
				if bi == 0 {
					continue
				}
				r = ai
			case token.OR:
				if bi == 1 {
					r = IntLit(1)
				} else {
					r = ai
				}
			case token.XOR:
				if bi == 1 {
					r = Sub(IntLit(1), ai)
				} else {
					r = ai
				}
			case token.AND_NOT:
				if bi == 1 {
					continue
				}
				r = ai
			}
		} else {
			bi := bit(b, i)
			switch op {
			case token.AND:
				r = Mul(ai, bi)
				r = Ite(And(Eq(ai, IntLit(1)), Eq(bi, IntLit(1))), IntLit(1), IntLit(0))
			case token.OR:
				r = Ite(Or(Eq(ai, IntLit(1)), Eq(bi, IntLit(1))), IntLit(1), IntLit(0))
			case token.XOR:
				r = Ite(Eq(ai, bi), IntLit(0), IntLit(1))
			case token.AND_NOT:
				r = Ite(And(Eq(ai, IntLit(1)), Eq(bi, IntLit(0))), IntLit(1), IntLit(0))
			}
		}
		sum = Add(sum, Mul(r, BigLit(pow2(i))))
	}
	return sum, true
}

func (x *Exec) valuesEqual(a, b Value, typ types.Type) Term {
	switch av := a.(type) {
	case VTerm:
		if bv, ok := b.(VTerm); ok {
			if av.T.Sort != bv.T.Sort {
				return x.vc.Fresh("eq", SBool)
			}
			return Eq(av.T, bv.T)
		}
	case VIface:
		if bv, ok := b.(VIface); ok {
			// comparing against nil only needs the tag
			if l, ok := bv.Tag.Lit(); ok && l.Sign() == 0 {
				return Eq(av.Tag, IntLit(0))
			}
			if l, ok := av.Tag.Lit(); ok && l.Sign() == 0 {
				return Eq(bv.Tag, IntLit(0))
			}
			return And(Eq(av.Tag, bv.Tag), Eq(av.Val, bv.Val))
		}
	case VSlice:
		// only comparison with nil is legal
		return And(Eq(av.Back.refOrZero(), IntLit(0)), Eq(av.Cap, IntLit(0)))
	case VStruct:
		if bv, ok := b.(VStruct); ok && len(av.F) == len(bv.F) {
			st, _ := typ.Underlying().(*types.Struct)
			var cs []Term
			for i := range av.F {
				var ft types.Type
				if st != nil {
					ft = st.Field(i).Type()
				}
				cs = append(cs, x.valuesEqual(av.F[i], bv.F[i], ft))
			}
			return And(cs...)
		}
	case VAddr:
		if bv, ok := b.(VAddr); ok {
			if av.Kind == AOpaque && bv.Kind == AOpaque {
				return Eq(av.Opaque, bv.Opaque)
			}
			if av.Kind != AOpaque && bv.Kind == AOpaque {
				if l, ok := bv.Opaque.Lit(); ok && l.Sign() == 0 {
					return TFalse
				}
			}
			if sameAddr(av, bv) {
				return TTrue
			}
		}
	case VFunc:
		if bv, ok := b.(VFunc); ok {
			if av.Fn != nil && bv.Fn == nil && !bv.T.Valid() {
				return TFalse
			}
			if av.T.Valid() && bv.T.Valid() {
				return Eq(av.T, bv.T)
			}
			if av.Fn != nil && bv.T.Valid() {
				if l, ok := bv.T.Lit(); ok && l.Sign() == 0 {
					return TFalse
				}
			}
		}
		if bv, ok := b.(VTerm); ok {
			if av.T.Valid() {
				return Eq(av.T, bv.T)
			}
			if av.Fn != nil {
				if l, ok := bv.T.Lit(); ok && l.Sign() == 0 {
					return TFalse
				}
			}
		}
	}
	if bv, ok := b.(VFunc); ok {
		if at, ok := a.(VTerm); ok {
			if bv.T.Valid() {
				return Eq(at.T, bv.T)
			}
			if bv.Fn == nil {
				return Eq(at.T, IntLit(0))
			}
		}
	}
	return x.vc.Fresh("eq", SBool)
}

func (b Backing) refOrZero() Term {
	if b.Heap {
		return b.Ref
	}
	return IntLit(1)
}

func (x *Exec) convert(fr *Frame, st *State, in *ssa.Convert) Value {
	v := x.val(fr, in.X)
	from, to := in.X.Type(), in.Type()
	fk, tk := kindOf(from), kindOf(to)
	switch {
	case fk == KInt && tk == KInt:
		t := v.(VTerm).T
		flo, fhi, _, _ := intRange(from)
		tlo, thi, _, _ := intRange(to)
		a, _ := flo.Lit()
		b, _ := fhi.Lit()
		c, _ := tlo.Lit()
		d, _ := thi.Lit()
		if a.Cmp(c) >= 0 && b.Cmp(d) <= 0 {
			return v
		}
		if x.checkConv {
			txt := x.srcText(fr.fn, in.Pos(), isCall)
			x.oblige(fr, st, "conv", txt, "integer conversion preserves the value: "+txt, in.Pos(), And(Le(tlo, t), Le(t, thi)), nil)
			return v
		}
		return VTerm{x.vc.Name(x.wrapTo(t, to), "cv")}
	case fk == KInt && tk == KFloat:
		return VTerm{app(SFP, "(_ to_fp 11 53) RNE", app("Real", "to_real", v.(VTerm).T))}
	case fk == KFloat && tk == KInt:
		f := v.(VTerm).T
		lo, hi, _, _ := intRange(to)
		r := app("Real", "fp.to_real", app(SFP, "fp.roundToIntegral RTZ", f))
		ri := x.vc.Fresh("f2i", SInt)
		txt := x.srcText(fr.fn, in.Pos(), isCall)
		inRange := And(Not(app(SBool, "fp.isNaN", f)), Not(app(SBool, "fp.isInfinite", f)),
			app(SBool, "<=", app("Real", "to_real", lo), r), app(SBool, "<=", r, app("Real", "to_real", hi)))
		x.oblige(fr, st, "conv", txt, "float to integer conversion is in range (else implementation-defined): "+txt, in.Pos(), inRange, nil)
		x.vc.Assert(Implies(inRange, Eq(app("Real", "to_real", ri), r)))
		x.vc.Assert(And(Le(lo, ri), Le(ri, hi)))
		return VTerm{ri}
	case fk == KFloat && tk == KFloat:
		return v
	case tk == KString && fk == KInt:
		t := app(SStr, "sOfByte", v.(VTerm).T)
		x.vc.Assert(Implies(And(Ge(v.(VTerm).T, IntLit(0)), Lt(v.(VTerm).T, IntLit(128))), And(Eq(sLen(t), IntLit(1)), Eq(app(SInt, "sAt", t, IntLit(0)), v.(VTerm).T))))
		x.vc.strFacts(t)
		return VTerm{t}
	case tk == KString && fk == KSlice:
		s := v.(VSlice)
		t := x.vc.Fresh("str", SStr)
		x.vc.strFacts(t)
		x.vc.Assert(Eq(sLen(t), s.Len))
		return VTerm{t}
	case tk == KSlice && fk == KString:
		s := v.(VTerm).T
		ref := x.newRef(fr)
		return VSlice{Backing{Heap: true, Ref: ref}, IntLit(0), sLen(s), sLen(s)}
	case fk == tk:
		return v
	}
	x.vc.note("conversion %s -> %s not modelled", from, to)
	return x.fresh(to, "conv")
}

// freshMapUnreferenced: a map that has just been made is not yet stored anywhere: no field of map
// type and no map value of that type, in the current heap, refers to it. (Needed for heap-wide
// separation invariants; stated only for the heap arrays the function has touched so far.)
func (x *Exec) freshMapUnreferenced(st *State, ref Term, t types.Type) {
	tk, uk := typeKey(t), typeKey(t.Underlying())
	for _, k := range sortedKeys(x.heapSorts) {
		srt := x.heapSorts[k]
		switch {
		case strings.HasPrefix(k, "map|") && strings.HasSuffix(k, "#val"):
			// "map|map[K]V#val"
			body := strings.TrimSuffix(strings.TrimPrefix(k, "map|"), "#val")
			i := strings.Index(body, "]")
			if i < 0 || (body[i+1:] != tk && body[i+1:] != uk) {
				continue
			}
			if !strings.HasPrefix(string(srt), "(Array Int (Array ") {
				continue
			}
			ks := SInt
			if strings.Contains(string(srt), "(Array Str") {
				ks = SStr
			}
			x.vc.ctr++
			o, kk := Term{fmt.Sprintf("fo!q%d", x.vc.ctr), SInt}, Term{fmt.Sprintf("fk!q%d", x.vc.ctr), ks}
			x.assume(st, Term{fmt.Sprintf("(forall ((%s Int) (%s %s)) (not (= %s %s)))", o.S, kk.S, string(ks), Select(Select(x.heapGet(st, k, srt), o), kk).S, ref.S), SBool})
		case srt == arrOf(SInt) && x.fieldTypeKey[k] != "" && (x.fieldTypeKey[k] == tk || x.fieldTypeKey[k] == uk):
			x.vc.ctr++
			o := Term{fmt.Sprintf("fo!q%d", x.vc.ctr), SInt}
			x.assume(st, Term{fmt.Sprintf("(forall ((%s Int)) (not (= %s %s)))", o.S, Select(x.heapGet(st, k, srt), o).S, ref.S), SBool})
		}
	}
}

// coverReturns (flag -covers): emit a reachability cover for every return statement.
var coverReturns bool
