package main

// Debugging aid: for a failed obligation whose goal is a conjunction, find the failing conjuncts.

import (
	"fmt"
	"strings"
)

func splitConj(t Term, guard Term, out *[][2]Term) {
	s := t.S
	if strings.HasPrefix(s, "(and ") {
		for _, p := range splitTop(s[1 : len(s)-1])[1:] {
			splitConj(Term{p, SBool}, guard, out)
		}
		return
	}
	if strings.HasPrefix(s, "(=> ") {
		parts := splitTop(s[1 : len(s)-1])
		if len(parts) == 3 {
			splitConj(Term{parts[2], SBool}, And(guard, Term{parts[1], SBool}), out)
			return
		}
	}
	*out = append(*out, [2]Term{guard, t})
}

func explain(eng *Engine, o *Options, res *FuncResult, ob *Obligation) {
	goal := ob.Goal
	// look through a named goal
	for i := 0; i < 4; i++ {
		if d, ok := res.VC.defs[goal.S]; ok {
			goal = d
		}
	}
	var leaves [][2]Term
	splitConj(goal, TTrue, &leaves)
	if len(leaves) <= 1 {
		return
	}
	shown := 0
	for i, l := range leaves {
		if shown >= 8 {
			fmt.Println("      ... (more conjuncts not shown)")
			break
		}
		o2 := *ob
		o2.Goal = Implies(l[0], l[1])
		o2.Name = fmt.Sprintf("%s#conj%d", ob.Name, i)
		script := res.VC.Script(&o2)
		f := fmt.Sprintf("%s/queries/explain_%d.smt2", o.Out, i)
		_ = writeFile(f, script)
		r := Solve(f, 5, false, "")
		if r.Status != "unsat" {
			g := ""
			if !l[0].IsTrue() {
				g = trunc(l[0].S, 200) + "  ==>  "
			}
			shown++
			fmt.Printf("      FAILING CONJUNCT (%s): %s%s\n", r.Status, g, trunc(l[1].S, 400))
		}
	}
}
