package main

// Calls: builtins, contract application, inlining, closed-world dispatch, library models, havoc.

import (
	"fmt"
	"go/token"
	"go/types"
	"os"
	"sort"
	"strconv"
	"strings"

	"golang.org/x/tools/go/ssa"
)

func fnKey(fn *ssa.Function, home *types.Package) string {
	if fn.Pkg != nil && fn.Pkg.Pkg == home {
		return fn.RelString(home)
	}
	return fn.String()
}

func (x *Exec) call(fr *Frame, st *State, site ssa.Instruction, c *ssa.CallCommon, rt types.Type) Value {
	var args []Value
	for _, a := range c.Args {
		args = append(args, x.val(fr, a))
	}
	var fv Value
	fv = x.val(fr, c.Value)
	r := x.callWith(fr, st, site, c, args, fv, rt)
	if r == nil {
		return VStruct{}
	}
	return r
}

func resultType(c *ssa.CallCommon) types.Type {
	sig := c.Signature()
	switch sig.Results().Len() {
	case 0:
		return nil
	case 1:
		return sig.Results().At(0).Type()
	}
	return sig.Results()
}

func pack(res []Value, rt types.Type) Value {
	if rt == nil {
		return VStruct{}
	}
	if _, ok := rt.(*types.Tuple); ok {
		return VStruct{F: res}
	}
	if len(res) == 1 {
		return res[0]
	}
	return VStruct{F: res}
}

func (x *Exec) callWith(fr *Frame, st *State, site ssa.Instruction, c *ssa.CallCommon, args []Value, fv Value, rt types.Type) Value {
	if rt == nil {
		rt = resultType(c)
	}
	pos := site.Pos()
	if !pos.IsValid() {
		pos = c.Pos()
	}
	// builtins
	if b, ok := c.Value.(*ssa.Builtin); ok && !c.IsInvoke() {
		return x.builtin(fr, st, b, c, args, rt, pos)
	}
	if c.IsInvoke() {
		return x.invoke(fr, st, site, c, args, fv, rt, pos)
	}
	var fn *ssa.Function
	var bind []Value
	if f, ok := fv.(VFunc); ok && f.Fn != nil {
		fn = f.Fn
		bind = f.Bind
	}
	if fn == nil {
		if sc := c.StaticCallee(); sc != nil {
			fn = sc
		}
	}
	if fn == nil {
		return x.unknownFuncCall(fr, st, c, args, rt, pos)
	}
	return x.staticCall(fr, st, site, fn, args, bind, rt, pos)
}

func (x *Exec) bumpCounters(fr *Frame, st *State, key string, args []Value, argTypes []types.Type, pos token.Pos) {
	if x.inSpec {
		return
	}
	for _, tc := range x.counters {
		if matchCallee(tc.Callee, key) {
			x.matched[tc.Callee] = true
			k := "cnt|" + tc.Name
			x.heapSet(st, k, x.vc.Name(Add(x.heapGet(st, k, SInt), IntLit(1)), "cnt"))
		}
	}
	if x.contract != nil && len(x.inlineStack) == 0 {
		for _, ac := range x.contract.AtCalls {
			callee, site := ac.Callee, 0
			if i := strings.LastIndex(callee, "#"); i > 0 {
				// "<callee>#n": only the n-th call site (in source order) of that callee
				if n, err := strconv.Atoi(callee[i+1:]); err == nil {
					callee, site = callee[:i], n
				}
			}
			if matchCallee(callee, key) {
				if site > 0 {
					if x.siteNo == nil {
						x.siteNo = map[string]map[token.Pos]int{}
					}
					m := x.siteNo[callee]
					if m == nil {
						m = map[token.Pos]int{}
						x.siteNo[callee] = m
						// number the call sites of this callee by source position
						var ps []token.Pos
						for _, b := range fr.fn.Blocks {
							for _, in := range b.Instrs {
								if ci, ok := in.(ssa.CallInstruction); ok {
									k := ""
									if sc := ci.Common().StaticCallee(); sc != nil {
										k = fnKey(sc, x.eng.home)
									} else if ci.Common().IsInvoke() {
										k = x.eng.ifaceKey(ci.Common().Value.Type(), ci.Common().Method.Name())
									}
									if matchCallee(callee, k) {
										ps = append(ps, ci.Pos())
									}
								}
							}
						}
						sort.Slice(ps, func(i, j int) bool { return ps[i] < ps[j] })
						for i, p := range ps {
							m[p] = i + 1
						}
					}
					if os.Getenv("GOVC_DEBUG") != "" {
						fmt.Fprintln(os.Stderr, "site-debug", callee, site, pos, m)
					}
					if m[pos] != site {
						if m[pos] != 0 {
							x.matched[ac.Callee] = x.matched[ac.Callee] || false
						}
						continue
					}
				}
				x.matched[ac.Callee] = true
				var tvs []TV
				for i, a := range args {
					var t types.Type
					if i < len(argTypes) {
						t = argTypes[i]
					}
					tvs = append(tvs, TV{a, t})
				}
				g := x.evalClauseArgs(fr, ac, st, fr.entry, nil, tvs)
				x.oblige(fr, st, "atcall", fmt.Sprintf("%s[%d]", ac.Callee, ac.Index), "at call "+ac.Callee+": "+ac.Src, pos, g, ac.Props)
			}
		}
	}
}

func matchCallee(pat, key string) bool {
	if pat == key {
		return true
	}
	if strings.HasSuffix(pat, "*") && strings.HasPrefix(key, pat[:len(pat)-1]) {
		return true
	}
	return false
}

func sigTypes(sig *types.Signature, withRecv bool) []types.Type {
	var out []types.Type
	if withRecv && sig.Recv() != nil {
		out = append(out, sig.Recv().Type())
	}
	for i := 0; i < sig.Params().Len(); i++ {
		out = append(out, sig.Params().At(i).Type())
	}
	return out
}

func (x *Exec) staticCall(fr *Frame, st *State, site ssa.Instruction, fn *ssa.Function, args []Value, bind []Value, rt types.Type, pos token.Pos) Value {
	key := fnKey(fn, x.eng.home)
	x.bumpCounters(fr, st, key, args, sigTypes(fn.Signature, true), pos)
	if m, ok := models[fn.String()]; ok {
		if r, ok := m(x, fr, st, args, pos, rt); ok {
			return r
		}
	}
	if r, ok := x.protoGetter(st, fn, args); ok {
		return r
	}
	if ct := x.eng.contracts.Funcs[key]; ct != nil && ct.Opts["inline"] == "" {
		return pack(x.applyContract(fr, st, fn, ct, args, pos), rt)
	}
	if x.eng.inlinable(fn) && len(x.inlineStack) < 3 && !x.onStack(fn) && len(x.vc.lines) < 60000 {
		return pack(x.inline(fr, st, fn, args, bind, pos), rt)
	}
	return x.havocCall(fr, st, fn, nil, args, rt, pos)
}

func (x *Exec) onStack(fn *ssa.Function) bool {
	if fn == x.top {
		return true
	}
	for _, f := range x.inlineStack {
		if f == fn {
			return true
		}
	}
	return false
}

func (x *Exec) inline(fr *Frame, st *State, fn *ssa.Function, args []Value, bind []Value, pos token.Pos) []Value {
	nf := &Frame{fn: fn, regs: map[ssa.Value]Value{}, args: args, free: bind,
		prefix: fr.prefix + "in:" + fn.Name() + "/", entry: st.clone()}
	x.inlineStack = append(x.inlineStack, fn)
	savedLoop := x.inlinedInLoop
	for _, li := range fr.loops {
		if li.body[fr.curBlk] {
			x.inlinedInLoop = true
		}
	}
	out, res := x.execFunction(nf, st)
	x.inlinedInLoop = savedLoop
	x.inlineStack = x.inlineStack[:len(x.inlineStack)-1]
	pc := st.pc
	*st = *out
	if out.pc.IsFalse() {
		// callee never returns on this path
		st.pc = TFalse
		return zeroResults(x, fn)
	}
	// the callee returns to exactly the caller's path (panics are separate obligations)
	st.pc = pc
	if res == nil {
		return zeroResults(x, fn)
	}
	return res
}

func rtOrUnit(rt types.Type) types.Type {
	if rt == nil {
		return types.NewTuple()
	}
	return rt
}

func zeroResults(x *Exec, fn *ssa.Function) []Value {
	var out []Value
	rs := fn.Signature.Results()
	for i := 0; i < rs.Len(); i++ {
		out = append(out, x.zero(rs.At(i).Type()))
	}
	return out
}

// applyContract: prove requires, havoc the frame, assume ensures.
func (x *Exec) applyContract(fr *Frame, st *State, fn *ssa.Function, ct *Contract, args []Value, pos token.Pos) []Value {
	vars := x.bindParams(fn, args)
	key := fnKey(fn, x.eng.home)
	var reqs []Term
	for _, rq := range ct.Requires {
		env := x.newEnv(fr, st, st, vars, fn)
		g := env.evalBool(rq.Expr)
		if env.err != nil {
			x.specErrors = append(x.specErrors, fmt.Sprintf("requires of %s not evaluable at call site in %s: %v", key, fr.fn.Name(), env.err))
			continue
		}
		reqs = append(reqs, g)
		if !x.inSpec {
			x.oblige(fr, st, "requires", fmt.Sprintf("%s[%d]", key, rq.Index), "precondition of "+key+": "+rq.Src, pos, g, rq.Props)
		}
	}
	old := st.clone()
	// frame
	fs := x.eng.frameOf(fn)
	if fs.all {
		x.havocAll(st)
	}
	for _, k := range sortedKeys(fs.keys) {
		x.havocKey(st, k, fs.keys[k])
	}
	x.havocArgCells(fr, st, args)
	// results
	var res []Value
	rs := fn.Signature.Results()
	for i := 0; i < rs.Len(); i++ {
		name := rs.At(i).Name()
		if name == "" {
			name = fmt.Sprintf("r%d", i)
		}
		res = append(res, x.fresh(rs.At(i).Type(), fn.Name()+"."+name))
	}
	x.bindResults(fn, res, vars)
	// the callee's own call counters are not visible to the caller: unconstrained values
	for _, tc := range ct.Tracks {
		if _, clash := vars[tc.Name]; !clash {
			vars[tc.Name] = TV{VTerm{x.vc.Fresh("callee."+tc.Name, SInt)}, types.Typ[types.Int]}
		}
	}
	for _, en := range ct.Ensures {
		env := x.newEnv(fr, st, old, vars, fn)
		g := env.evalBool(en.Expr)
		if env.err != nil {
			x.specErrors = append(x.specErrors, fmt.Sprintf("ensures of %s not evaluable at call site in %s: %v", key, fr.fn.Name(), env.err))
			continue
		}
		x.assume(st, g)
	}
	// explicit frame: everything not listed keeps its old value
	if ct.HasMod {
		x.applyModifies(fr, st, old, fn, ct, vars, fs)
	}
	return res
}

// applyModifies restores (as assumptions) the pre-call content of heap keys in the callee's
// inferred frame that the explicit modifies clause does not list.
func (x *Exec) applyModifies(fr *Frame, st, old *State, fn *ssa.Function, ct *Contract, vars map[string]TV, fs frameSet) {
	// modifies entries: "T.f" (whole key prefix) or a path expression x.f (single object)
	whole := map[string]bool{}
	type objField struct {
		prefix string
		obj    Term
	}
	var singles []objField
	for _, m := range ct.Modifies {
		if m == "*" {
			return
		}
		if strings.HasPrefix(m, "$") { // raw heap key prefix
			whole[m[1:]] = true
			continue
		}
		e, err := parseSpec(m)
		if err != nil || e.Kind != "go" {
			continue
		}
		env := x.newEnv(fr, old, old, vars, fn)
		if pfx, obj, ok := env.lvalue(e); ok {
			singles = append(singles, objField{pfx, obj})
			if pfx == kBufOwned || pfx == kBufLen {
				// ghost buffer state: the location named in the post-state may change too
				env2 := x.newEnv(fr, st, old, vars, fn)
				if _, obj2, ok := env2.lvalue(e); ok && obj2.S != obj.S {
					singles = append(singles, objField{pfx, obj2})
				}
			}
		} else {
			x.vc.note("modifies entry %q of %s not understood: whole frame havocked", m, ct.Key)
			return
		}
	}
	for _, k := range sortedKeys(fs.keys) {
		isWhole := false
		for w := range whole {
			if strings.HasPrefix(k, w) {
				isWhole = true
			}
		}
		if isWhole {
			continue
		}
		var objs []Term
		for _, s := range singles {
			if k == s.prefix || strings.HasPrefix(k, s.prefix+"#") {
				objs = append(objs, s.obj)
			}
		}
		oldT := x.heapGet(old, k, fs.keys[k])
		newT := st.heap[k]
		if k == kBufLen {
			// buffer lengths: the frame covers the buffers somebody owned before the call; free
			// pool buffers may be taken, used and returned by the callee (nobody can observe them)
			x.vc.ctr++
			q := Term{fmt.Sprintf("b!q%d", x.vc.ctr), SInt}
			cs := []Term{Select(x.heapGet(old, kBufOwned, arrOf(SBool)), q)}
			for _, o := range objs {
				cs = append(cs, Neq(q, o))
			}
			body := Implies(And(cs...), Eq(Select(newT, q), Select(oldT, q)))
			x.assume(st, Term{fmt.Sprintf("(forall ((%s Int)) (! %s :pattern (%s)))", q.S, body.S, Select(newT, q).S), SBool})
			continue
		}
		if len(objs) == 0 {
			st.heap[k] = oldT
			continue
		}
		if !strings.HasPrefix(string(oldT.Sort), "(Array") {
			continue
		}
		// new == old except at objs: new = store(old, o1, new[o1]) ...
		t := oldT
		for _, o := range objs {
			t = Store(t, o, Select(newT, o))
		}
		x.assume(st, Eq(newT, t))
	}
}

func (x *Exec) havocArgCells(fr *Frame, st *State, args []Value) {
	for _, a := range args {
		if ad, ok := a.(VAddr); ok && ad.Kind == ALocal {
			if _, has := st.cells[ad.Cell]; has {
				st.cells[ad.Cell] = x.fresh(ad.ElemT, "arg."+ad.Cell.Comment)
			}
		}
		// a closure handed to the callee may be run by it any number of times (range-over-func
		// iterators, callbacks): the variables it captures by reference and everything its body
		// may modify are unknown afterwards
		if fv, ok := a.(VFunc); ok && fv.Fn != nil && !x.inSpec {
			x.havocArgCells(fr, st, fv.Bind)
			if fv.Fn.Pkg != nil && x.eng.isHome(fv.Fn.Pkg.Pkg) {
				fs := x.eng.frameOf(fv.Fn)
				if fs.all {
					x.havocAll(st)
				}
				for _, k := range sortedKeys(fs.keys) {
					x.havocKey(st, k, fs.keys[k])
				}
			}
		}
	}
}

func (x *Exec) bindParams(fn *ssa.Function, args []Value) map[string]TV {
	vars := map[string]TV{}
	for i, p := range fn.Params {
		if i < len(args) && p.Name() != "_" && p.Name() != "" {
			vars[p.Name()] = TV{args[i], p.Type()}
		}
	}
	return vars
}

func (x *Exec) bindResults(fn *ssa.Function, res []Value, vars map[string]TV) {
	rs := fn.Signature.Results()
	for i := 0; i < rs.Len() && i < len(res); i++ {
		tv := TV{res[i], rs.At(i).Type()}
		if n := rs.At(i).Name(); n != "" && n != "_" {
			vars[n] = tv
		}
		vars[fmt.Sprintf("r%d", i)] = tv
		if i == 0 {
			vars["result"] = tv
		}
		if i == rs.Len()-1 && rs.At(i).Name() == "" && rs.At(i).Type().String() == "error" {
			if _, has := vars["err"]; !has {
				vars["err"] = tv
			}
		}
	}
}

func (x *Exec) newEnv(fr *Frame, st, old *State, vars map[string]TV, fn *ssa.Function) *Env {
	pkg := x.eng.home
	if fn != nil && fn.Pkg != nil {
		pkg = fn.Pkg.Pkg
	}
	v2 := make(map[string]TV, len(vars))
	for k, v := range vars {
		v2[k] = v
	}
	return &Env{x: x, fr: fr, st: st, old: old, vars: v2, pkg: pkg}
}

// lvalue resolves a modifies path "x.f" to (heap key prefix, object term).
func (env *Env) lvalue(e *SExpr) (string, Term, bool) {
	return env.lvalueGo(e)
}

// ---------------------------------------------------------------------------------------------

type implementer struct {
	typ types.Type
	fn  *ssa.Function
}

func (x *Exec) invoke(fr *Frame, st *State, site ssa.Instruction, c *ssa.CallCommon, args []Value, fv Value, rt types.Type, pos token.Pos) Value {
	return x.invokeCore(fr, st, site, c.Value.Type(), c.Method.Name(), c.Signature(), args, fv, rt, pos)
}

// invokeCore: interface method call (also used by library models that call back, e.g. WriteTo).
func (x *Exec) invokeCore(fr *Frame, st *State, site ssa.Instruction, itype types.Type, mname string, sig *types.Signature, args []Value, fv Value, rt types.Type, pos token.Pos) Value {
	iv, ok := fv.(VIface)
	if !ok {
		return x.havocUnknownSig(fr, st, sig, args, rt, pos, "invoke on non-interface value")
	}
	ikey := x.eng.ifaceKey(itype, mname)
	txt := x.srcText(fr.fn, pos, isCall)
	x.oblige(fr, st, "nil", "iface:"+ikey, "method call on nil interface value: "+txt, pos, Neq(iv.Tag, IntLit(0)), nil)
	full := append([]Value{iv}, args...)
	x.bumpCounters(fr, st, ikey, full, append([]types.Type{itype}, sigTypes(sig, false)...), pos)
	closed := x.eng.closedWorld(itype)
	external := func(s2 *State) Value {
		// interface-level model or contract (open world)
		if m, ok := models[ikey]; ok {
			if r, ok := m(x, fr, s2, full, pos, rt); ok {
				return r
			}
		}
		if ct := x.eng.contracts.Funcs[ikey]; ct != nil {
			return pack(x.applyIfaceContract(fr, s2, itype, sig, mname, ct, full, pos), rt)
		}
		return x.havocUnknownSig(fr, s2, sig, full, rt, pos, "open-world interface call "+ikey)
	}
	impls := x.eng.implementers(itype, mname)
	if ikey == "(error).Error" {
		return external(st)
	}
	if !closed && x.eng.exportedHomeIface(itype) {
		// public extension point (Codec, TypeResolver, ...): implementations are arbitrary user
		// code honouring the interface; the package's own ones are verified separately
		return external(st)
	}
	if !closed {
		// keep only implementers that can matter: those whose method writes package state or has a contract
		var keep []implementer
		for _, im := range impls {
			if im.fn.Pkg != nil && x.eng.isHome(im.fn.Pkg.Pkg) {
				keep = append(keep, im)
			}
		}
		impls = keep
		if len(impls) == 0 || len(impls) > 10 {
			if len(impls) > 10 {
				x.vc.note("open-world call %s: %d package implementers not case-split", ikey, len(impls))
			}
			return external(st)
		}
	}
	if len(impls) == 0 {
		return x.havocUnknownSig(fr, st, sig, full, rt, pos, "no implementers of "+ikey)
	}
	if x.contract != nil && x.contract.Dispatch != nil && !x.inSpec {
		if allowed, ok := x.contract.Dispatch[ikey]; ok {
			var keep []implementer
			var excluded []Term
			for _, im := range impls {
				name := types.TypeString(im.typ, func(p *types.Package) string { return "" })
				name = strings.ReplaceAll(name, ".", "")
				isAllowed := false
				for _, a := range allowed {
					if a == name {
						isAllowed = true
					}
				}
				if isAllowed {
					keep = append(keep, im)
				} else {
					excluded = append(excluded, Neq(iv.Tag, IntLit(x.eng.typeTag(im.typ))))
				}
			}
			if len(allowed) == 1 && allowed[0] == "!opaque" {
				x.vc.assumption("receivers of %s in %s are treated as opaque implementations (a receiver holding one of the package's own types is covered by that type's own contract, not re-entered here)", ikey, x.top.String())
				x.assume(st, And(excluded...))
			} else {
				x.oblige(fr, st, "dispatch", ikey+":"+txt, "receiver of "+txt+" holds none of the package types excluded by the dispatch clause", pos, And(excluded...), nil)
			}
			impls = keep
			if len(impls) == 0 {
				if closed {
					st.pc = TFalse
					return x.fresh(rtOrUnit(rt), "nodisp")
				}
				return external(st)
			}
		}
	}
	// case split
	var states []edge
	var vals []Value
	var conds []Term
	var known []Term
	for _, im := range impls {
		g := Eq(iv.Tag, IntLit(x.eng.typeTag(im.typ)))
		known = append(known, g)
		s2 := st.clone()
		s2.pc = x.vc.Name(And(st.pc, g), "disp")
		recv := x.unbox(fr, s2, iv, im.typ)
		r := x.staticCall(fr, s2, site, im.fn, append([]Value{recv}, args...), nil, rt, pos)
		states = append(states, edge{nil, TTrue, s2})
		vals = append(vals, r)
		conds = append(conds, s2.pc)
	}
	if closed {
		// closed world: the dynamic type is one of the implementers
		x.assume(st, Or(known...))
	} else {
		s2 := st.clone()
		s2.pc = x.vc.Name(And(st.pc, Not(Or(known...))), "ext")
		r := external(s2)
		states = append(states, edge{nil, TTrue, s2})
		vals = append(vals, r)
		conds = append(conds, s2.pc)
	}
	m := x.mergeStates(states)
	pc := st.pc
	*st = *m
	st.pc = pc
	if rt == nil {
		return VStruct{}
	}
	return x.mergeValues(vals, conds, rt, "disp")
}

func (x *Exec) applyIfaceContract(fr *Frame, st *State, itype types.Type, sig *types.Signature, mname string, ct *Contract, full []Value, pos token.Pos) []Value {
	// contracts on interface methods name parameters positionally: recv, a0, a1, ... and r0, r1
	vars := map[string]TV{"recv": {full[0], itype}}
	for i := 0; i < sig.Params().Len() && i+1 < len(full); i++ {
		tv := TV{full[i+1], sig.Params().At(i).Type()}
		vars[fmt.Sprintf("a%d", i)] = tv
		if n := sig.Params().At(i).Name(); n != "" && n != "_" {
			vars[n] = tv
		}
	}
	for _, rq := range ct.Requires {
		env := x.newEnv(fr, st, st, vars, nil)
		g := env.evalBool(rq.Expr)
		if env.err == nil {
			x.oblige(fr, st, "requires", fmt.Sprintf("%s[%d]", ct.Key, rq.Index), "precondition of "+ct.Key+": "+rq.Src, pos, g, rq.Props)
		}
	}
	old := st.clone()
	fs := frameSet{keys: map[string]Sort{}}
	x.eng.rawModifies(ct, &fs)
	if fs.all {
		x.havocAll(st)
	}
	for _, k := range sortedKeys(fs.keys) {
		x.havocKey(st, k, fs.keys[k])
	}
	x.havocArgCells(fr, st, full)
	var res []Value
	for i := 0; i < sig.Results().Len(); i++ {
		r := x.fresh(sig.Results().At(i).Type(), fmt.Sprintf("%s.r%d", mname, i))
		res = append(res, r)
		tv := TV{r, sig.Results().At(i).Type()}
		vars[fmt.Sprintf("r%d", i)] = tv
		if n := sig.Results().At(i).Name(); n != "" {
			vars[n] = tv
		}
		if i == 0 {
			vars["result"] = tv
		}
	}
	for _, en := range ct.Ensures {
		env := x.newEnv(fr, st, old, vars, nil)
		g := env.evalBool(en.Expr)
		if env.err == nil {
			x.assume(st, g)
		} else {
			x.vc.note("ensures of %s not evaluable: %v", ct.Key, env.err)
		}
	}
	return res
}

// funcValueCandidates: the package functions whose address is taken and whose signature matches.
func (x *Exec) funcValueCandidates(sig *types.Signature) []*ssa.Function {
	var out []*ssa.Function
	for _, f := range x.eng.addrTaken {
		if len(f.FreeVars) == 0 && types.Identical(f.Signature, sig) {
			out = append(out, f)
		}
	}
	return out
}

func (x *Exec) unknownFuncCall(fr *Frame, st *State, c *ssa.CallCommon, args []Value, rt types.Type, pos token.Pos) Value {
	// a func value of a signature for which the package only ever takes the address of a few
	// small functions: case split over them (closed world for unexported function types is an
	// assumption listed in the evidence)
	if cands := x.funcValueCandidates(c.Signature()); len(cands) >= 1 && len(cands) <= 4 && !x.inSpec {
		all := true
		for _, f := range cands {
			if !x.eng.inlinable(f) || x.onStack(f) {
				all = false
			}
		}
		if all && len(x.inlineStack) < 3 {
			x.vc.assumption("function values of type %s are one of the package functions whose address is taken", c.Signature().String())
			var states []edge
			var vals []Value
			var conds []Term
			choice := x.vc.Fresh("fnchoice", SInt)
			for i, f := range cands {
				g := Eq(choice, IntLit(int64(i)))
				if i == len(cands)-1 {
					g = Ge(choice, IntLit(int64(i)))
				}
				s2 := st.clone()
				s2.pc = x.vc.Name(And(st.pc, g), "fv")
				r := x.staticCall(fr, s2, fr.curBlk.Instrs[0], f, args, nil, rt, pos)
				states = append(states, edge{nil, TTrue, s2})
				vals = append(vals, r)
				conds = append(conds, s2.pc)
			}
			x.vc.Assert(Ge(choice, IntLit(0)))
			m := x.mergeStates(states)
			pc := st.pc
			*st = *m
			st.pc = pc
			if rt == nil {
				return VStruct{}
			}
			return x.mergeValues(vals, conds, rt, "fv")
		}
	}
	// call through a function value: havoc with the union of frames of address-taken functions
	// of the same signature
	fs := x.eng.funcValueFrame(c.Signature())
	x.bumpCounters(fr, st, "funcvalue:"+x.srcText(fr.fn, pos, isCall), args, nil, pos)
	if fs.all {
		x.havocAll(st)
	}
	for _, k := range sortedKeys(fs.keys) {
		x.havocKey(st, k, fs.keys[k])
	}
	x.havocArgCells(fr, st, args)
	x.havocArgs(fr, st, args, c.Signature())
	if rt == nil {
		return VStruct{}
	}
	return x.fresh(rt, "fv")
}

func (x *Exec) havocUnknown(fr *Frame, st *State, c *ssa.CallCommon, args []Value, rt types.Type, pos token.Pos, why string) Value {
	return x.havocUnknownSig(fr, st, c.Signature(), args, rt, pos, why)
}

func (x *Exec) havocUnknownSig(fr *Frame, st *State, sig *types.Signature, args []Value, rt types.Type, pos token.Pos, why string) Value {
	x.vc.note("%s: result and reachable abstract state havocked", why)
	x.havocArgCells(fr, st, args)
	x.havocArgs(fr, st, args, sig)
	if rt == nil {
		return VStruct{}
	}
	return x.fresh(rt, "hv")
}

// havocArgs havocs the abstract library state reachable from arguments passed to unknown code:
// contents of byte slices, buffer lengths, header maps.
func (x *Exec) havocArgs(fr *Frame, st *State, args []Value, sig *types.Signature) {
	for i, a := range args {
		// a *bytes.Buffer (directly, or possibly inside an interface value) handed to code without
		// a model may be written to, read from or reset: its length is unknown afterwards
		if sig != nil {
			var pt types.Type
			off := 0
			if sig.Recv() != nil {
				off = 1
			}
			if i == 0 && sig.Recv() != nil {
				pt = sig.Recv().Type()
			} else if i-off >= 0 && i-off < sig.Params().Len() {
				pt = sig.Params().At(i - off).Type()
			}
			if pt != nil && typeKey(pt) == "*bytes.Buffer" {
				if vt, ok := a.(VTerm); ok {
					n := x.vc.Fresh("hv.blen", SInt)
					x.vc.Assert(And(Ge(n, IntLit(0)), Le(n, BigLit(pow2(48)))))
					x.setBufLen(st, vt.T, n)
				}
			}
		}
		ioLike := false
		if sig != nil {
			off := 0
			if sig.Recv() != nil {
				off = 1
			}
			var pt types.Type
			if i == 0 && sig.Recv() != nil {
				pt = sig.Recv().Type()
			} else if i-off >= 0 && i-off < sig.Params().Len() {
				pt = sig.Params().At(i - off).Type()
			}
			if it, ok := pt.(interface{ Underlying() types.Type }); ok && pt != nil {
				if ifc, ok := it.Underlying().(*types.Interface); ok {
					for m := 0; m < ifc.NumMethods(); m++ {
						switch ifc.Method(m).Name() {
						case "Write", "Read", "WriteTo", "ReadFrom", "WriteString", "WriteByte":
							ioLike = true
						}
					}
				}
			}
		}
		if iv, ok := a.(VIface); ok && !x.inSpec && ioLike {
			isBuf := Eq(iv.Tag, IntLit(x.bufTag()))
			if !isBuf.IsFalse() {
				n := x.vc.Fresh("hv.blen", SInt)
				x.vc.Assert(And(Ge(n, IntLit(0)), Le(n, BigLit(pow2(48)))))
				h := x.heapGet(st, kBufLen, arrOf(SInt))
				x.heapSet(st, kBufLen, x.vc.Name(Ite(isBuf, Store(h, iv.Val, n), h), "H|buf|len"))
			}
		}
		switch v := a.(type) {
		case VSlice:
			if !v.Back.Heap {
				x.storeAddr(fr, st, *v.Back.Loc, x.fresh(v.Back.Loc.ElemT, "hv.arr"), token.NoPos)
			} else {
				for k, s := range x.heapSorts {
					if strings.HasPrefix(k, "elems|") {
						h := x.heapGet(st, k, s)
						x.heapSet(st, k, Store(h, v.Back.Ref, x.vc.Fresh("hv.elems", elemSort(s))))
					}
				}
			}
		}
	}
	for k, s := range x.heapSorts {
		if strings.HasPrefix(k, "buf|len") || strings.HasPrefix(k, "map|map[string][]string") {
			_ = s
		}
	}
}

// havocCall: package function without contract that is not inlinable.
func (x *Exec) havocCall(fr *Frame, st *State, fn *ssa.Function, _ *Contract, args []Value, rt types.Type, pos token.Pos) Value {
	if fn.Pkg != nil && x.eng.isHome(fn.Pkg.Pkg) {
		fs := x.eng.frameOf(fn)
		if fs.all {
			x.havocAll(st)
		}
		for _, k := range sortedKeys(fs.keys) {
			x.havocKey(st, k, fs.keys[k])
		}
		x.vc.note("call to %s without contract: frame havocked", fnKey(fn, x.eng.home))
	} else {
		fs := x.eng.frameOf(fn)
		if fs.all {
			x.havocAll(st)
		}
		for _, k := range sortedKeys(fs.keys) {
			x.havocKey(st, k, fs.keys[k])
		}
		x.vc.note("library call %s without model: result havocked", fn.String())
	}
	x.havocArgCells(fr, st, args)
	x.havocArgs(fr, st, args, fn.Signature)
	if rt == nil {
		return VStruct{}
	}
	return x.fresh(rt, fn.Name())
}

// ---------------------------------------------------------------------------------------------
// builtins

func (x *Exec) builtin(fr *Frame, st *State, b *ssa.Builtin, c *ssa.CallCommon, args []Value, rt types.Type, pos token.Pos) Value {
	switch b.Name() {
	case "len":
		switch v := args[0].(type) {
		case VSlice:
			return VTerm{v.Len}
		case VTerm:
			if v.T.Sort == SStr {
				return VTerm{sLen(v.T)}
			}
			if kindOf(c.Args[0].Type()) == KMap {
				ms := x.eng.mapShape(c.Args[0].Type())
				l := x.vc.Name(Ite(Eq(v.T, IntLit(0)), IntLit(0), x.mapLen(st, ms, v.T)), "len")
				x.assume(st, Ge(l, IntLit(0)))
				return VTerm{l}
			}
			if at, ok := c.Args[0].Type().Underlying().(*types.Array); ok {
				return VTerm{IntLit(at.Len())}
			}
		}
	case "cap":
		if v, ok := args[0].(VSlice); ok {
			return VTerm{v.Cap}
		}
	case "copy":
		return x.copyBuiltin(fr, st, args, c, pos)
	case "append":
		return x.appendBuiltin(fr, st, args, c, rt)
	case "delete":
		if mv, ok := args[0].(VTerm); ok {
			ms := x.eng.mapShape(c.Args[0].Type())
			x.immutCheck(fr, st, typeKey(c.Args[0].Type()), mv.T, "map "+typeKey(c.Args[0].Type()), pos)
			// delete on nil map is a no-op
			s2 := st.clone()
			x.mapDelete(s2, ms, mv.T, x.mapKeyTerm(args[1], ms))
			s2.pc = And(st.pc, Neq(mv.T, IntLit(0)))
			s1 := st.clone()
			s1.pc = And(st.pc, Eq(mv.T, IntLit(0)))
			m := x.mergeStates([]edge{{nil, TTrue, s2}, {nil, TTrue, s1}})
			pc := st.pc
			*st = *m
			st.pc = pc
		}
		return VStruct{}
	case "min", "max":
		a, ok1 := args[0].(VTerm)
		bb, ok2 := args[1].(VTerm)
		if ok1 && ok2 && a.T.Sort == SInt {
			if b.Name() == "min" {
				return VTerm{x.vc.Name(Ite(Le(a.T, bb.T), a.T, bb.T), "min")}
			}
			return VTerm{x.vc.Name(Ite(Ge(a.T, bb.T), a.T, bb.T), "max")}
		}
	case "panic":
		x.oblige(fr, st, "panic", "explicit", "explicit panic reachable", pos, TFalse, nil)
		return VStruct{}
	case "ssa:wrapnilchk":
		return args[0]
	case "ssa:deferstack":
		return VTerm{IntLit(0)}
	case "print", "println", "recover", "close", "clear":
		if rt != nil {
			return x.fresh(rt, b.Name())
		}
		return VStruct{}
	}
	x.vc.note("builtin %s not modelled precisely", b.Name())
	if rt == nil {
		return VStruct{}
	}
	return x.fresh(rt, b.Name())
}

// arrayOfBacking reads the element array behind a backing.
func (x *Exec) arrayOfBacking(fr *Frame, st *State, b Backing, et types.Type) (Term, bool) {
	if !b.Heap {
		arr := x.loadAddr(fr, st, *b.Loc, nil, token.NoPos)
		if at, ok := arr.(VTerm); ok && strings.HasPrefix(string(at.T.Sort), "(Array") {
			return at.T, true
		}
		return Term{}, false
	}
	key, s, ok := elemsKey(et)
	if !ok {
		return Term{}, false
	}
	return Select(x.heapGet(st, key, s), b.Ref), true
}

func (x *Exec) setArrayOfBacking(fr *Frame, st *State, b Backing, et types.Type, arr Term) {
	if !b.Heap {
		x.storeAddr(fr, st, *b.Loc, VTerm{arr}, token.NoPos)
		return
	}
	key, s, ok := elemsKey(et)
	if !ok {
		return
	}
	x.heapSet(st, key, Store(x.heapGet(st, key, s), b.Ref, arr))
}

func (x *Exec) copyBuiltin(fr *Frame, st *State, args []Value, c *ssa.CallCommon, pos token.Pos) Value {
	dst, ok := args[0].(VSlice)
	if !ok {
		return x.fresh(types.Typ[types.Int], "copy")
	}
	var srcLen Term
	var srcAt func(i Term) Term
	et := c.Args[0].Type().Underlying().(*types.Slice).Elem()
	switch s := args[1].(type) {
	case VSlice:
		srcLen = s.Len
		arr, ok := x.arrayOfBacking(fr, st, s.Back, et)
		if ok {
			srcAt = func(i Term) Term { return Select(arr, Add(s.Off, i)) }
		}
	case VTerm:
		if s.T.Sort == SStr {
			srcLen = sLen(s.T)
			srcAt = func(i Term) Term { return x.strAt(s.T, i) }
		}
	}
	if !srcLen.Valid() {
		return x.fresh(types.Typ[types.Int], "copy")
	}
	n := x.vc.Name(Ite(Le(dst.Len, srcLen), dst.Len, srcLen), "copyn")
	darr, ok := x.arrayOfBacking(fr, st, dst.Back, et)
	if ok && srcAt != nil {
		// fixed-size destination arrays are updated index by index; others get a fresh array
		// constrained pointwise by a quantified frame axiom
		fixed := int64(-1)
		if !dst.Back.Heap {
			if at, ok := dst.Back.Loc.ElemT.Underlying().(*types.Array); ok && at.Len() <= 16 {
				fixed = at.Len()
			}
		}
		if fixed >= 0 {
			narr := darr
			for k := int64(0); k < fixed; k++ {
				kk := IntLit(k)
				in := And(Le(dst.Off, kk), Lt(kk, Add(dst.Off, n)))
				narr = Store(narr, kk, Ite(in, srcAt(Sub(kk, dst.Off)), Select(darr, kk)))
			}
			x.setArrayOfBacking(fr, st, dst.Back, et, x.vc.Name(narr, "cp"))
		} else {
			na := x.vc.Fresh("cparr", darr.Sort)
			x.vc.ctr++
			q := Term{fmt.Sprintf("i!q%d", x.vc.ctr), SInt}
			in := And(Le(dst.Off, q), Lt(q, Add(dst.Off, n)))
			body := Eq(Select(na, q), Ite(in, srcAt(Sub(q, dst.Off)), Select(darr, q)))
			x.assume(st, Term{fmt.Sprintf("(forall ((%s Int)) %s)", q.S, body.S), SBool})
			x.setArrayOfBacking(fr, st, dst.Back, et, na)
		}
	}
	return VTerm{n}
}

func (x *Exec) appendBuiltin(fr *Frame, st *State, args []Value, c *ssa.CallCommon, rt types.Type) Value {
	s, ok := args[0].(VSlice)
	if !ok {
		return x.fresh(rt, "append")
	}
	var addLen Term
	switch a := args[1].(type) {
	case VSlice:
		addLen = a.Len
	case VTerm:
		if a.T.Sort == SStr {
			addLen = sLen(a.T)
		}
	}
	if !addLen.Valid() {
		return x.fresh(rt, "append")
	}
	et := rt.Underlying().(*types.Slice).Elem()
	nl := x.vc.Name(Add(s.Len, addLen), "aplen")
	// the result's backing array is modelled as a new array (the prefix is copied); in-place
	// growth within capacity is observationally the same unless the old slice is written later
	ref := x.newRef(fr)
	nc := x.vc.Fresh("apcap", SInt)
	x.vc.Assert(Ge(nc, nl))
	res := VSlice{Backing{Heap: true, Ref: ref}, IntLit(0), nl, nc}
	// contents: prefix preserved, single appended element placed (common case: append(s, e))
	if a, ok := args[1].(VSlice); ok {
		if kindOf(et) != KStruct && kindOf(et) != KSlice && kindOf(et) != KIface {
			if key, hs, ok := elemsKey(et); ok {
				old, ok1 := x.arrayOfBacking(fr, st, s.Back, et)
				src, ok2 := x.arrayOfBacking(fr, st, a.Back, et)
				if ok1 && ok2 {
					na := x.vc.Fresh("aparr", elemSort(hs))
					x.vc.ctr++
					q := Term{fmt.Sprintf("i!q%d", x.vc.ctr), SInt}
					body := Implies(And(Le(IntLit(0), q), Lt(q, s.Len)), Eq(Select(na, q), Select(old, Add(s.Off, q))))
					x.assume(st, Term{fmt.Sprintf("(forall ((%s Int)) %s)", q.S, body.S), SBool})
					if l, ok := a.Len.Lit(); ok && l.Int64() <= 4 {
						for k := int64(0); k < l.Int64(); k++ {
							x.assume(st, Eq(Select(na, Add(s.Len, IntLit(k))), Select(src, Add(a.Off, IntLit(k)))))
						}
					} else {
						x.vc.ctr++
						q2 := Term{fmt.Sprintf("j!q%d", x.vc.ctr), SInt}
						body2 := Implies(And(Le(IntLit(0), q2), Lt(q2, a.Len)), Eq(Select(na, Add(s.Len, q2)), Select(src, Add(a.Off, q2))))
						x.assume(st, Term{fmt.Sprintf("(forall ((%s Int)) %s)", q2.S, body2.S), SBool})
					}
					x.heapSet(st, key, Store(x.heapGet(st, key, hs), ref, na))
				}
			}
		}
	}
	return res
}

var _ = sort.Strings

// protoGetter models the generated getters of protobuf messages, "func (x *T) GetF() FT", for
// scalar fields: nil-safe, returns x.F (the zero value for a nil receiver). The generated code is
// exactly `if x != nil { return x.F }; return <zero>`.
func (x *Exec) protoGetter(st *State, fn *ssa.Function, args []Value) (Value, bool) {
	if fn.Pkg == nil || x.eng.isHome(fn.Pkg.Pkg) || len(args) != 1 || !strings.HasPrefix(fn.Name(), "Get") {
		return nil, false
	}
	path := fn.Pkg.Pkg.Path()
	if !strings.Contains(path, "genproto") && !strings.Contains(path, "protobuf/types") {
		return nil, false
	}
	recv := fn.Signature.Recv()
	if recv == nil || fn.Signature.Results().Len() != 1 {
		return nil, false
	}
	pt, ok := recv.Type().(*types.Pointer)
	if !ok {
		return nil, false
	}
	stt, skey := structOf(pt.Elem())
	if stt == nil {
		return nil, false
	}
	rtyp := fn.Signature.Results().At(0).Type()
	switch kindOf(rtyp) {
	case KInt, KString, KBool:
	default:
		return nil, false
	}
	for i := 0; i < stt.NumFields(); i++ {
		if stt.Field(i).Name() == fn.Name()[3:] && types.Identical(stt.Field(i).Type(), rtyp) {
			obj := tOf(args[0])
			v, ok := x.loadField(st, obj, stt, skey, i).(VTerm)
			z, ok2 := x.zero(rtyp).(VTerm)
			if !ok || !ok2 {
				return nil, false
			}
			x.usedModels["generated protobuf getter "+fn.String()] = true
			return VTerm{x.vc.Name(Ite(Eq(obj, IntLit(0)), z.T, v.T), "pbget")}, true
		}
	}
	return nil, false
}
