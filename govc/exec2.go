package main

// Interfaces, maps, defers.

import (
	"fmt"
	"go/token"
	"go/types"
	"sort"
	"strings"

	"golang.org/x/tools/go/ssa"
)

// typeTag gives a stable positive id to a concrete type.
func (e *Engine) typeTag(t types.Type) int64 {
	k := typeKey(t)
	if id, ok := e.tags[k]; ok {
		return id
	}
	id := int64(len(e.tags) + 1)
	e.tags[k] = id
	e.tagTypes[id] = t
	return id
}

func (x *Exec) makeIface(fr *Frame, st *State, v Value, t types.Type) Value {
	if kindOf(t) == KIface {
		return v
	}
	tag := IntLit(x.eng.typeTag(t))
	switch vv := v.(type) {
	case VTerm:
		if kindOf(t) == KRef || kindOf(t) == KInt {
			return VIface{tag, vv.T}
		}
		if kindOf(t) == KString {
			f := x.vc.Fun("boxStr", []Sort{SStr}, SInt)
			return VIface{tag, app(SInt, f, vv.T)}
		}
		if kindOf(t) == KBool {
			return VIface{tag, Ite(vv.T, IntLit(1), IntLit(0))}
		}
	case VStruct:
		if len(vv.F) == 0 {
			return VIface{tag, IntLit(0)}
		}
		// box: new object holding the struct value
		if stt, key := structOf(t); stt != nil {
			ref := x.newRef(fr)
			x.storeStruct(st, ref, stt, key, vv)
			return VIface{tag, ref}
		}
	case VFunc:
		return VIface{tag, x.funcTerm(vv)}
	}
	if av, ok := v.(VAddr); ok && av.Kind != AOpaque {
		// an address boxed into an interface (e.g. the target of errors.As): remember it
		val := x.vc.Fresh("boxaddr", SInt)
		x.boxedAddrs[val.S] = av
		return VIface{tag, val}
	}
	return VIface{tag, x.vc.Fresh("box", SInt)}
}

// implementsFacts asserts, for every known concrete type, whether it implements iface.
func (x *Exec) implementsFacts(iface types.Type) int64 {
	id := x.eng.typeTag(iface)
	key := fmt.Sprintf("impl:%d", id)
	it, _ := iface.Underlying().(*types.Interface)
	if x.vc.implTag[key] || it == nil {
		return id
	}
	x.vc.implTag[key] = true
	for _, t := range x.eng.concreteTypes {
		tid := x.eng.typeTag(t)
		x.vc.Assert(Eq(app(SBool, "implements", IntLit(tid), IntLit(id)), BoolLit(types.Implements(t, it))))
	}
	for _, t := range []types.Type{x.eng.namedPtr("bytes", "Buffer")} {
		x.vc.Assert(Eq(app(SBool, "implements", IntLit(x.eng.typeTag(t)), IntLit(id)), BoolLit(types.Implements(t, it))))
	}
	x.vc.Assert(Not(app(SBool, "implements", IntLit(0), IntLit(id))))
	return id
}

func (x *Exec) unbox(fr *Frame, st *State, iv VIface, t types.Type) Value {
	switch kindOf(t) {
	case KRef, KInt, KMap, KFunc, KChan:
		return VTerm{iv.Val}
	case KStruct:
		stt, key := structOf(t)
		if stt.NumFields() == 0 {
			return VStruct{}
		}
		return x.loadStruct(st, iv.Val, stt, key)
	case KBool:
		return VTerm{Eq(iv.Val, IntLit(1))}
	}
	return x.fresh(t, "unbox")
}

func (x *Exec) typeAssert(fr *Frame, st *State, in *ssa.TypeAssert) Value {
	v := x.val(fr, in.X)
	iv, ok := v.(VIface)
	if !ok {
		return x.fresh(in.Type(), "ta")
	}
	var okT Term
	var res Value
	if kindOf(in.AssertedType) == KIface {
		id := x.implementsFacts(in.AssertedType)
		okT = app(SBool, "implements", iv.Tag, IntLit(id))
		res = iv
	} else {
		okT = Eq(iv.Tag, IntLit(x.eng.typeTag(in.AssertedType)))
		res = x.unbox(fr, st, iv, in.AssertedType)
	}
	okT = x.vc.Name(okT, "taok")
	if x.poolVals[iv.Tag.S] {
		x.assume(st, okT)
	}
	if in.CommaOk {
		// on failure the value is the zero value
		z := x.zero(in.AssertedType)
		m := x.mergeValues([]Value{res, z}, []Term{okT, TTrue}, in.AssertedType, "ta")
		return VStruct{F: []Value{m, VTerm{okT}}}
	}
	x.oblige(fr, st, "assert", x.srcText(fr.fn, in.Pos(), nil), "type assertion without comma-ok cannot fail", in.Pos(), okT, nil)
	return res
}

// ---------------------------------------------------------------------------------------------
// maps: ref -> (dom: K->Bool, val components: K->V)

type mapShape struct {
	key   string
	kSort Sort
	vKind Kind
	vSort Sort
	vType types.Type
}

func (e *Engine) mapShape(t types.Type) mapShape {
	m := t.Underlying().(*types.Map)
	ms := mapShape{key: "map|" + typeKey(t.Underlying()), vType: m.Elem(), vKind: kindOf(m.Elem())}
	switch kindOf(m.Key()) {
	case KString:
		ms.kSort = SStr
	default:
		ms.kSort = SInt
	}
	if s, ok := scalarSort(m.Elem()); ok && ms.vKind != KArray {
		ms.vSort = s
	}
	return ms
}

// mapKeys lists the heap keys (with sorts) that a write to a map of this type may touch.
func (e *Engine) mapKeys(t types.Type) map[string]Sort {
	ms := e.mapShape(t)
	out := map[string]Sort{ms.key + "#dom": arrOf(arrKV(ms.kSort, SBool)), ms.key + "#len": arrOf(SInt)}
	switch ms.vKind {
	case KSlice:
		for _, c := range []string{"#b", "#o", "#l", "#c"} {
			out[ms.key+c] = arrOf(arrKV(ms.kSort, SInt))
		}
	case KIface:
		out[ms.key+"#t"] = arrOf(arrKV(ms.kSort, SInt))
		out[ms.key+"#v"] = arrOf(arrKV(ms.kSort, SInt))
	case KStruct:
	default:
		if ms.vSort != "" {
			out[ms.key+"#val"] = arrOf(arrKV(ms.kSort, ms.vSort))
		}
	}
	return out
}

func (x *Exec) mapKeyTerm(v Value, ms mapShape) Term {
	switch vv := v.(type) {
	case VTerm:
		if vv.T.Sort == ms.kSort {
			return vv.T
		}
	case VIface:
		return vv.Val
	}
	return x.vc.Fresh("mk", ms.kSort)
}

func (x *Exec) mapInit(st *State, t types.Type, ref Term) {
	ms := x.eng.mapShape(t)
	ds := arrOf(arrKV(ms.kSort, SBool))
	h := x.heapGet(st, ms.key+"#dom", ds)
	x.heapSet(st, ms.key+"#dom", Store(h, ref, Term{fmt.Sprintf("((as const %s) false)", arrKV(ms.kSort, SBool)), arrKV(ms.kSort, SBool)}))
	hl := x.heapGet(st, ms.key+"#len", arrOf(SInt))
	x.heapSet(st, ms.key+"#len", Store(hl, ref, IntLit(0)))
}

func (x *Exec) mapDom(st *State, ms mapShape, ref Term) Term {
	return Select(x.heapGet(st, ms.key+"#dom", arrOf(arrKV(ms.kSort, SBool))), ref)
}

func (x *Exec) mapLen(st *State, ms mapShape, ref Term) Term {
	t := Select(x.heapGet(st, ms.key+"#len", arrOf(SInt)), ref)
	return t
}

func (x *Exec) mapGetVal(st *State, ms mapShape, ref, k Term) Value {
	comp := func(c string, s Sort) Term {
		return Select(Select(x.heapGet(st, ms.key+c, arrOf(arrKV(ms.kSort, s))), ref), k)
	}
	switch ms.vKind {
	case KSlice:
		b := comp("#b", SInt)
		x.notFutureRef(b)
		sv := VSlice{Backing{Heap: true, Ref: b}, comp("#o", SInt), comp("#l", SInt), comp("#c", SInt)}
		if k := "slice:" + sv.Len.S + "|" + st.pc.S; !x.vc.declared[k] && !strings.Contains(sv.Len.S, "!q") {
			x.vc.declared[k] = true
			x.assume(st, And(Ge(sv.Off, IntLit(0)), Ge(sv.Len, IntLit(0)), Le(sv.Len, sv.Cap), Le(sv.Cap, BigLit(pow2(48)))))
		}
		return sv
	case KIface:
		return VIface{comp("#t", SInt), comp("#v", SInt)}
	case KStruct:
		if st2, _ := structOf(ms.vType); st2 != nil && st2.NumFields() == 0 {
			return VStruct{}
		}
		return x.fresh(ms.vType, "mv")
	}
	if ms.vSort == "" {
		return x.fresh(ms.vType, "mv")
	}
	t := comp("#val", ms.vSort)
	if ms.vSort == SStr {
		x.vc.strFacts(t)
	}
	x.typeInvFact(st, t, ms.vType)
	return VTerm{t}
}

func (x *Exec) mapSetVal(st *State, ms mapShape, ref, k Term, v Value) {
	set := func(c string, s Sort, t Term) {
		key := ms.key + c
		h := x.heapGet(st, key, arrOf(arrKV(ms.kSort, s)))
		x.heapSet(st, key, Store(h, ref, Store(Select(h, ref), k, t)))
	}
	switch ms.vKind {
	case KSlice:
		sv, ok := v.(VSlice)
		if !ok || !sv.Back.Heap {
			sv = x.fresh(ms.vType, "mv").(VSlice)
		}
		set("#b", SInt, sv.Back.Ref)
		set("#o", SInt, sv.Off)
		set("#l", SInt, sv.Len)
		set("#c", SInt, sv.Cap)
	case KIface:
		if iv, ok := v.(VIface); ok {
			set("#t", SInt, iv.Tag)
			set("#v", SInt, iv.Val)
		}
	case KStruct:
	default:
		if ms.vSort == "" {
			return
		}
		if vt, ok := v.(VTerm); ok && vt.T.Sort == ms.vSort {
			set("#val", ms.vSort, vt.T)
		} else if vf, ok := v.(VFunc); ok {
			set("#val", ms.vSort, x.funcTerm(vf))
		}
	}
}

func (x *Exec) mapUpdate(fr *Frame, st *State, in *ssa.MapUpdate) {
	mv, ok := x.val(fr, in.Map).(VTerm)
	if !ok {
		return
	}
	ms := x.eng.mapShape(in.Map.Type())
	x.oblige(fr, st, "nil", "map:"+x.srcText(fr.fn, in.Pos(), isIndex), "assignment to entry in nil map", in.Pos(), Neq(mv.T, IntLit(0)), nil)
	x.immutCheck(fr, st, typeKey(in.Map.Type()), mv.T, "map "+typeKey(in.Map.Type()), in.Pos())
	k := x.mapKeyTerm(x.val(fr, in.Key), ms)
	x.mapStore(st, ms, mv.T, k, x.val(fr, in.Value))
}

func (x *Exec) mapStore(st *State, ms mapShape, ref, k Term, v Value) {
	ds := arrOf(arrKV(ms.kSort, SBool))
	h := x.heapGet(st, ms.key+"#dom", ds)
	had := Select(Select(h, ref), k)
	hl := x.heapGet(st, ms.key+"#len", arrOf(SInt))
	x.heapSet(st, ms.key+"#len", Store(hl, ref, x.vc.Name(Add(Select(hl, ref), Ite(had, IntLit(0), IntLit(1))), "mlen")))
	x.heapSet(st, ms.key+"#dom", Store(h, ref, Store(Select(h, ref), k, TTrue)))
	x.mapSetVal(st, ms, ref, k, v)
}

func (x *Exec) mapDelete(st *State, ms mapShape, ref, k Term) {
	ds := arrOf(arrKV(ms.kSort, SBool))
	h := x.heapGet(st, ms.key+"#dom", ds)
	had := Select(Select(h, ref), k)
	hl := x.heapGet(st, ms.key+"#len", arrOf(SInt))
	x.heapSet(st, ms.key+"#len", Store(hl, ref, x.vc.Name(Sub(Select(hl, ref), Ite(had, IntLit(1), IntLit(0))), "mlen")))
	x.heapSet(st, ms.key+"#dom", Store(h, ref, Store(Select(h, ref), k, TFalse)))
}

func (x *Exec) lookup(fr *Frame, st *State, in *ssa.Lookup) Value {
	if kindOf(in.X.Type()) != KMap {
		return x.fresh(in.Type(), "lk")
	}
	mv, ok := x.val(fr, in.X).(VTerm)
	if !ok {
		return x.fresh(in.Type(), "lk")
	}
	ms := x.eng.mapShape(in.X.Type())
	k := x.mapKeyTerm(x.val(fr, in.Index), ms)
	has := x.vc.Name(And(Neq(mv.T, IntLit(0)), Select(x.mapDom(st, ms, mv.T), k)), "has")
	val := x.mapGetVal(st, ms, mv.T, k)
	z := x.zero(ms.vType)
	m := x.mergeValues([]Value{val, z}, []Term{has, TTrue}, ms.vType, "lk")
	if in.CommaOk {
		return VStruct{F: []Value{m, VTerm{has}}}
	}
	return m
}

func (x *Exec) next(fr *Frame, st *State, in *ssa.Next) Value {
	okT := x.vc.Fresh("next.ok", SBool)
	tp := in.Type().(*types.Tuple)
	kv := x.fresh(tp.At(1).Type(), "next.k")
	vv := x.fresh(tp.At(2).Type(), "next.v")
	if !in.IsString {
		if rng, ok := in.Iter.(*ssa.Range); ok && kindOf(rng.X.Type()) == KMap {
			if mv, ok := x.val(fr, rng.X).(VTerm); ok {
				ms := x.eng.mapShape(rng.X.Type())
				if kt, ok := kv.(VTerm); ok && kt.T.Sort == ms.kSort {
					// entries visited are entries of the map (at the time of the visit)
					x.assume(st, Implies(okT, And(Neq(mv.T, IntLit(0)), Select(x.mapDom(st, ms, mv.T), kt.T))))
					cur := x.mapGetVal(st, ms, mv.T, kt.T)
					if tp.At(2).Type() != nil {
						if fa, ok := flatten(cur); ok {
							if fb, ok := flatten(vv); ok && len(fa) == len(fb) {
								for i := range fa {
									if fa[i].Sort == fb[i].Sort {
										x.assume(st, Implies(okT, Eq(fa[i], fb[i])))
									}
								}
							}
						}
					}
				}
			}
		}
	}
	return VStruct{F: []Value{VTerm{okT}, kv, vv}}
}

// ---------------------------------------------------------------------------------------------
// defers

func (x *Exec) runDefers(fr *Frame, st *State) {
	if len(st.defers) == 0 {
		return
	}
	var ds []*ssa.Defer
	for d := range st.defers {
		if d.Parent() == fr.fn {
			ds = append(ds, d)
		}
	}
	// LIFO: later (in block order / instruction order) first
	pos := func(d *ssa.Defer) int {
		for i, in := range d.Block().Instrs {
			if in == ssa.Instruction(d) {
				return d.Block().Index*100000 + i
			}
		}
		return 0
	}
	sort.Slice(ds, func(i, j int) bool { return pos(ds[i]) > pos(ds[j]) })
	for _, d := range ds {
		rec := st.defers[d]
		delete(st.defers, d)
		if rec.Active.IsFalse() {
			continue
		}
		// guarded execution: run on a copy under pc && active, then merge with the skip state
		run := st.clone()
		run.pc = x.vc.Name(And(st.pc, rec.Active), "dfr")
		skip := st.clone()
		skip.pc = And(st.pc, Not(rec.Active))
		x.callWith(fr, run, d, &d.Call, rec.Args, rec.Fn, nil)
		var m *State
		if rec.Active.IsTrue() {
			m = run
		} else {
			m = x.mergeStates([]edge{{nil, TTrue, run}, {nil, TTrue, skip}})
		}
		*st = *m
	}
}

var _ = token.NoPos
