package main

// VC: one SMT script under construction (one per verified function); obligations are prefixes of it.

import (
	"fmt"
	"go/token"
	"go/types"
	"sort"
	"strings"
)

const prelude = `(set-option :produce-models true)
(set-logic ALL)
(declare-sort Str 0)
(declare-fun sLen (Str) Int)
(declare-fun sAt (Str Int) Int)
(declare-fun sSub (Str Int Int) Str)
(declare-fun sCat (Str Str) Str)
(declare-fun sCanon (Str) Str)
(declare-fun sOfByte (Int) Str)
(declare-fun sOfInt (Int) Str)
(declare-fun sDec (Str) Int)
(declare-fun errIs (Int Int Int Int) Bool)
(declare-fun elemref (Int Int) Int)
(declare-fun implements (Int Int) Bool)
(declare-const sEmpty Str)
(assert (= (sLen sEmpty) 0))
(assert (= (sCanon sEmpty) sEmpty))
`

type Obligation struct {
	Name     string   // stable key: func/kind:detail
	Func     string   // function under verification
	Kind     string   // bounds|nil|conv|div|assert|overflow|requires|ensures|invariant|decreases|atcall|frame|lemma|cover|canary
	Props    []string // property ids served
	Desc     string   // human text (clause source, or the indexed expression)
	Pos      token.Position
	prefix   int
	Cond     Term
	Goal     Term
	Inputs   []ModelVar
	Cover    bool // cover obligations are expected SAT (reachability); canaries expected to fail
	Implicit bool

	// results
	Res    SolveResult
	File   string
	Status string // discharged | failed | unknown | cover-ok | cover-fail
	Replay *ReplayResult
	Known  string // known finding id if matched
}

type ModelVar struct {
	Name string // human name, e.g. "code", "timeout.len", "timeout[0]"
	Term Term
}

type VC struct {
	eng      *Engine
	fnName   string
	lines    []string
	declared map[string]bool
	ctr      int
	obls     []*Obligation
	strLits  map[string]Term
	litOrder []string
	notes    map[string]bool
	assume   map[string]bool
	oblNames map[string]int
	implTag  map[string]bool
	inputs   []ModelVar
	defs     map[string]Term
}

func newVC(eng *Engine, fnName string) *VC {
	return &VC{eng: eng, fnName: fnName, declared: map[string]bool{}, strLits: map[string]Term{},
		notes: map[string]bool{}, assume: map[string]bool{}, oblNames: map[string]int{}, implTag: map[string]bool{}, defs: map[string]Term{}}
}

func (vc *VC) note(format string, a ...any)       { vc.notes[fmt.Sprintf(format, a...)] = true }
func (vc *VC) assumption(format string, a ...any) { vc.assume[fmt.Sprintf(format, a...)] = true }

func symQuote(s string) string {
	ok := true
	for _, c := range s {
		if !(c >= 'a' && c <= 'z' || c >= 'A' && c <= 'Z' || c >= '0' && c <= '9' || c == '_' || c == '.' || c == '$' || c == '@' || c == '#' || c == '!') {
			ok = false
			break
		}
	}
	if ok && len(s) > 0 && !(s[0] >= '0' && s[0] <= '9') {
		return s
	}
	return "|" + strings.ReplaceAll(strings.ReplaceAll(s, "|", "!"), "\\", "!") + "|"
}

// Const declares (once) a constant with the exact given name.
func (vc *VC) Const(name string, sort Sort) Term {
	q := symQuote(name)
	if !vc.declared[q] {
		vc.declared[q] = true
		vc.lines = append(vc.lines, fmt.Sprintf("(declare-const %s %s)", q, sort))
	}
	return Term{q, sort}
}

// Fresh declares a new constant with a unique suffix.
func (vc *VC) Fresh(hint string, sort Sort) Term {
	vc.ctr++
	return vc.Const(fmt.Sprintf("%s!%d", hint, vc.ctr), sort)
}

func (vc *VC) Fun(name string, args []Sort, ret Sort) string {
	q := symQuote(name)
	if !vc.declared[q] {
		vc.declared[q] = true
		var as []string
		for _, a := range args {
			as = append(as, string(a))
		}
		vc.lines = append(vc.lines, fmt.Sprintf("(declare-fun %s (%s) %s)", q, strings.Join(as, " "), ret))
	}
	return q
}

func (vc *VC) Assert(t Term) {
	if t.IsTrue() {
		return
	}
	vc.lines = append(vc.lines, "(assert "+t.S+")")
}

// Name binds a (possibly large) term to a fresh constant to keep the script linear in size.
func (vc *VC) Name(t Term, hint string) Term {
	if len(t.S) < 48 || strings.Contains(t.S, "!q") {
		return t
	}
	c := vc.Fresh(hint, t.Sort)
	vc.Assert(Eq(c, t))
	vc.defs[c.S] = t
	return c
}

// StrLit returns the constant for a string literal, with its length and characters asserted.
func (vc *VC) StrLit(s string) Term {
	if s == "" {
		return Term{"sEmpty", SStr}
	}
	if t, ok := vc.strLits[s]; ok {
		return t
	}
	name := fmt.Sprintf("lit%d!%s", len(vc.strLits), sanitize(s, 16))
	t := vc.Const(name, SStr)
	vc.strLits[s] = t
	vc.litOrder = append(vc.litOrder, s)
	vc.Assert(Eq(app(SInt, "sLen", t), IntLit(int64(len(s)))))
	if len(s) <= 64 {
		for i := 0; i < len(s); i++ {
			vc.Assert(Eq(app(SInt, "sAt", t, IntLit(int64(i))), IntLit(int64(s[i]))))
		}
	}
	// literals are pairwise distinct and distinct from the empty string
	for _, o := range vc.litOrder[:len(vc.litOrder)-1] {
		vc.Assert(Neq(t, vc.strLits[o]))
	}
	vc.Assert(Neq(t, Term{"sEmpty", SStr}))
	vc.Assert(Eq(app(SStr, "sCanon", t), vc.canonOf(s)))
	return t
}

func (vc *VC) canonOf(s string) Term {
	c := canonicalMIMEHeaderKey(s)
	if c == s {
		if t, ok := vc.strLits[s]; ok {
			return t
		}
	}
	return vc.StrLit(c)
}

func sanitize(s string, n int) string {
	var sb strings.Builder
	for _, c := range s {
		if sb.Len() >= n {
			break
		}
		if c >= 'a' && c <= 'z' || c >= 'A' && c <= 'Z' || c >= '0' && c <= '9' {
			sb.WriteRune(c)
		} else {
			sb.WriteByte('_')
		}
	}
	return sb.String()
}

// strFacts asserts the basic facts about a string-valued term (once per term text).
func (vc *VC) strFacts(t Term) {
	if t.Sort != SStr || strings.Contains(t.S, "!q") || t.S == "sEmpty" || strings.HasPrefix(t.S, "lit") || strings.HasPrefix(t.S, "|lit") {
		return
	}
	key := "strfacts:" + t.S
	if vc.declared[key] {
		return
	}
	vc.declared[key] = true
	l := app(SInt, "sLen", t)
	vc.Assert(And(Ge(l, IntLit(0)), Le(l, BigLit(pow2(48))), Eq(Eq(l, IntLit(0)), Eq(t, Term{"sEmpty", SStr}))))
}

func (vc *VC) AddObligation(o *Obligation) *Obligation {
	base := o.Name
	n := vc.oblNames[base]
	vc.oblNames[base] = n + 1
	if n > 0 {
		o.Name = fmt.Sprintf("%s~%d", base, n+1)
	}
	o.Func = vc.fnName
	o.prefix = len(vc.lines)
	if o.Inputs == nil {
		o.Inputs = vc.inputs
	}
	vc.obls = append(vc.obls, o)
	return o
}

func (vc *VC) Script(o *Obligation) string {
	var sb strings.Builder
	sb.WriteString("; obligation " + o.Name + "\n; " + strings.ReplaceAll(o.Desc, "\n", " ") + "\n")
	sb.WriteString(prelude)
	for _, l := range vc.lines[:o.prefix] {
		sb.WriteString(l)
		sb.WriteByte('\n')
	}
	sb.WriteString("(assert " + o.Cond.S + ")\n")
	if !o.Cover {
		sb.WriteString("(assert (not " + o.Goal.S + "))\n")
	}
	sb.WriteString("(check-sat)\n")
	if len(o.Inputs) > 0 {
		sb.WriteString("(get-value (")
		seen := map[string]bool{}
		for _, in := range o.Inputs {
			if seen[in.Term.S] || !declaredIn(in.Term.S, vc, o.prefix) {
				continue
			}
			seen[in.Term.S] = true
			sb.WriteString(in.Term.S + " ")
		}
		sb.WriteString("))\n")
	}
	return sb.String()
}

// declaredIn is a cheap guard: model terms must only mention constants declared within the prefix.
func declaredIn(term string, vc *VC, prefix int) bool {
	// terms registered as inputs are built from entry constants, which are declared before any
	// obligation of the function is created; accept.
	return true
}

// ---------------------------------------------------------------------------------------------
// type classification

type Kind int

const (
	KBool Kind = iota
	KInt
	KFloat
	KString
	KRef  // pointer to struct
	KAddr // pointer to non-struct
	KIface
	KSlice
	KArray
	KMap
	KFunc
	KChan
	KStruct
	KTuple
	KOther
)

func kindOf(t types.Type) Kind {
	switch u := t.Underlying().(type) {
	case *types.Basic:
		switch {
		case u.Info()&types.IsBoolean != 0:
			return KBool
		case u.Info()&types.IsInteger != 0:
			return KInt
		case u.Info()&types.IsFloat != 0:
			return KFloat
		case u.Info()&types.IsString != 0:
			return KString
		case u.Kind() == types.UnsafePointer:
			return KOther
		case u.Kind() == types.UntypedNil:
			return KOther
		}
		return KOther
	case *types.Pointer:
		if _, ok := u.Elem().Underlying().(*types.Struct); ok {
			return KRef
		}
		return KAddr
	case *types.Interface:
		return KIface
	case *types.Slice:
		return KSlice
	case *types.Array:
		return KArray
	case *types.Map:
		return KMap
	case *types.Signature:
		return KFunc
	case *types.Chan:
		return KChan
	case *types.Struct:
		return KStruct
	case *types.Tuple:
		return KTuple
	}
	return KOther
}

func intRange(t types.Type) (lo, hi Term, bits int, signed bool) {
	b, _ := t.Underlying().(*types.Basic)
	bits, signed = 64, true
	if b != nil {
		switch b.Kind() {
		case types.Int8:
			bits = 8
		case types.Int16:
			bits = 16
		case types.Int32:
			bits = 32
		case types.Int64, types.Int, types.UntypedInt, types.UntypedRune:
			bits = 64
		case types.Uint8:
			bits, signed = 8, false
		case types.Uint16:
			bits, signed = 16, false
		case types.Uint32:
			bits, signed = 32, false
		case types.Uint64, types.Uint, types.Uintptr:
			bits, signed = 64, false
		}
	}
	if signed {
		h := pow2(bits - 1)
		return BigLit(new(bigInt).Neg(h)), BigLit(new(bigInt).Sub(h, one)), bits, true
	}
	return IntLit(0), BigLit(new(bigInt).Sub(pow2(bits), one)), bits, false
}

// scalarSort gives the SMT sort for types represented by a single term.
func scalarSort(t types.Type) (Sort, bool) {
	switch kindOf(t) {
	case KBool:
		return SBool, true
	case KInt, KRef, KMap, KFunc, KChan, KAddr, KOther:
		return SInt, true
	case KFloat:
		return SFP, true
	case KString:
		return SStr, true
	case KArray:
		a := t.Underlying().(*types.Array)
		if es, ok := scalarSort(a.Elem()); ok && kindOf(a.Elem()) != KArray {
			return arrOf(es), true
		}
		return SInt, true // opaque
	}
	return "", false
}

func typeKey(t types.Type) string {
	s := types.TypeString(t, func(p *types.Package) string { return p.Name() })
	return s
}

// structOf returns the struct type and a stable key for a named or anonymous struct type.
func structOf(t types.Type) (*types.Struct, string) {
	if p, ok := t.Underlying().(*types.Pointer); ok {
		t = p.Elem()
	}
	st, ok := t.Underlying().(*types.Struct)
	if !ok {
		return nil, ""
	}
	return st, typeKey(t)
}

func sortedKeys[V any](m map[string]V) []string {
	ks := make([]string, 0, len(m))
	for k := range m {
		ks = append(ks, k)
	}
	sort.Strings(ks)
	return ks
}

// litCases expands t (through named definitions) into guarded integer literals when t is an
// ite-tree whose leaves are all literals: t == lits[i] under conds[i] (first match wins).
func (vc *VC) litCases(t Term, budget int) (conds []Term, lits []Term, ok bool) {
	if _, isLit := t.Lit(); isLit {
		return []Term{TTrue}, []Term{t}, true
	}
	if d, has := vc.defs[t.S]; has {
		return vc.litCases(d, budget)
	}
	if strings.HasPrefix(t.S, "(ite ") && budget > 0 {
		parts := splitTop(t.S[1 : len(t.S)-1])
		if len(parts) != 4 {
			return nil, nil, false
		}
		c := Term{parts[1], SBool}
		c1, l1, ok1 := vc.litCases(Term{parts[2], t.Sort}, budget-1)
		c2, l2, ok2 := vc.litCases(Term{parts[3], t.Sort}, budget-1)
		if !ok1 || !ok2 || len(l1)+len(l2) > 16 {
			return nil, nil, false
		}
		for i := range c1 {
			conds = append(conds, And(c, c1[i]))
			lits = append(lits, l1[i])
		}
		for i := range c2 {
			conds = append(conds, And(Not(c), c2[i]))
			lits = append(lits, l2[i])
		}
		return conds, lits, true
	}
	return nil, nil, false
}

// splitOnLits builds ite(c1, f(l1), ite(c2, f(l2), ...)) when b is an ite-tree of literals.
func (vc *VC) splitOnLits(b Term, f func(lit Term) Term) (Term, bool) {
	if _, isLit := b.Lit(); isLit {
		return Term{}, false
	}
	conds, lits, ok := vc.litCases(b, 12)
	if !ok || len(lits) < 2 {
		return Term{}, false
	}
	r := f(lits[len(lits)-1])
	for i := len(lits) - 2; i >= 0; i-- {
		r = Ite(conds[i], f(lits[i]), r)
	}
	return r, true
}
