package main

// Replay of counterexamples against the real code: the model's input values are turned into a Go
// test that is injected into the package with `go test -overlay` (nothing is written to /repo).
// Panic-class obligations are confirmed by the recovered panic; postconditions are confirmed by
// pinning the observed outputs in the obligation's own SMT query.

import (
	"encoding/json"
	"fmt"
	"go/ast"
	"go/types"
	"os"
	"os/exec"
	"path/filepath"
	"strconv"
	"strings"
	"time"
)

var falseIdent = &ast.Ident{Name: "false"}

type replayArg struct {
	name string
	typ  types.Type
	lit  string // Go literal
	pin  []Term // SMT equalities pinning the input
}

func modelInt(s string) (string, bool) {
	s = strings.TrimSpace(s)
	if strings.HasPrefix(s, "(- ") {
		return "-" + strings.TrimSuffix(s[3:], ")"), true
	}
	if _, err := strconv.ParseUint(s, 10, 64); err == nil {
		return s, true
	}
	if len(s) > 0 && s[0] >= '0' && s[0] <= '9' {
		return s, true
	}
	return "", false
}

func (e *Engine) replayable(res *FuncResult) bool {
	if res.Fn == nil {
		return false
	}
	for _, p := range res.Fn.Params {
		switch kindOf(p.Type()) {
		case KBool, KInt, KString:
		case KStruct:
			if st, _ := structOf(p.Type()); st == nil || st.NumFields() != 0 {
				return false
			}
		case KArray:
			at := p.Type().Underlying().(*types.Array)
			if at.Len() > 16 || kindOf(at.Elem()) != KInt {
				return false
			}
		default:
			return false
		}
	}
	return true
}

func (e *Engine) replay(o *Options, res *FuncResult, ob *Obligation) *ReplayResult {
	if ob.Res.Status != "sat" || !e.replayable(res) || o.NoReplay {
		return nil
	}
	fn := res.Fn
	// 1. a small model: strings of at most 12 bytes
	script := res.VC.Script(ob)
	var small []string
	for _, in := range res.VC.inputs {
		if strings.HasSuffix(in.Name, ".len") {
			small = append(small, fmt.Sprintf("(assert (<= %s 12))", in.Term.S))
		}
	}
	model := ob.Res.Model
	if len(small) > 0 {
		s2 := strings.Replace(script, "(check-sat)", strings.Join(small, "\n")+"\n(check-sat)", 1)
		f2 := strings.TrimSuffix(ob.File, ".smt2") + ".small.smt2"
		_ = writeFile(f2, s2)
		r2 := Solve(f2, o.Timeout, false, "")
		if r2.Status == "sat" {
			model = r2.Model
		} else {
			return &ReplayResult{Output: "no counterexample with short strings found (" + r2.Status + "); model not replayed"}
		}
	}
	get := func(name string) (string, bool) {
		for _, in := range res.VC.inputs {
			if in.Name == name {
				v, ok := model[in.Term.S]
				return v, ok
			}
		}
		return "", false
	}
	imports := map[string]string{}
	qual := func(p *types.Package) string {
		if p == e.home {
			return ""
		}
		alias := "p_" + sanitize(p.Path(), 40)
		imports[p.Path()] = alias
		return alias
	}
	var args []string
	inputs := map[string]string{}
	for _, p := range fn.Params {
		ts := types.TypeString(p.Type(), qual)
		switch kindOf(p.Type()) {
		case KBool:
			v, _ := get(p.Name())
			args = append(args, v)
			inputs[p.Name()] = v
		case KInt:
			v, ok := get(p.Name())
			iv, ok2 := modelInt(v)
			if !ok || !ok2 {
				return &ReplayResult{Output: "model value for " + p.Name() + " not understood: " + v}
			}
			args = append(args, fmt.Sprintf("%s(%s)", ts, iv))
			inputs[p.Name()] = iv
		case KString:
			lv, _ := get(p.Name() + ".len")
			n, err := strconv.Atoi(strings.TrimSpace(lv))
			if err != nil || n > 12 {
				return &ReplayResult{Output: "string input too long to replay: " + lv}
			}
			var bs []byte
			for i := 0; i < n; i++ {
				cv, _ := get(fmt.Sprintf("%s[%d]", p.Name(), i))
				c, _ := strconv.Atoi(strings.TrimSpace(cv))
				bs = append(bs, byte(c))
			}
			args = append(args, fmt.Sprintf("%s(%q)", ts, string(bs)))
			inputs[p.Name()] = strconv.Quote(string(bs))
		case KStruct:
			args = append(args, ts+"{}")
		case KArray:
			at := p.Type().Underlying().(*types.Array)
			var els []string
			for i := int64(0); i < at.Len(); i++ {
				cv, _ := get(fmt.Sprintf("%s[%d]", p.Name(), i))
				iv, ok := modelInt(cv)
				if !ok {
					iv = "0"
				}
				els = append(els, iv)
			}
			args = append(args, ts+"{"+strings.Join(els, ", ")+"}")
			inputs[p.Name()] = "{" + strings.Join(els, ",") + "}"
		}
	}
	// 2. the test
	var call string
	if fn.Signature.Recv() != nil {
		call = fmt.Sprintf("(%s).%s(%s)", args[0], fn.Name(), strings.Join(args[1:], ", "))
	} else {
		call = fmt.Sprintf("%s(%s)", fn.Name(), strings.Join(args, ", "))
	}
	nres := fn.Signature.Results().Len()
	var lhs []string
	var prints []string
	for i := 0; i < nres; i++ {
		lhs = append(lhs, fmt.Sprintf("r%d", i))
		rt := fn.Signature.Results().At(i).Type()
		switch {
		case rt.String() == "error":
			prints = append(prints, fmt.Sprintf(`fmt.Printf("GOVC-RESULT %d error %%v\n", r%d == nil)`, i, i))
			if e.home.Scope().Lookup("errNoTimeout") != nil {
				prints = append(prints, fmt.Sprintf(`fmt.Printf("GOVC-ERRIS %d errNoTimeout %%v\n", errors.Is(r%d, errNoTimeout))`, i, i))
			}
		case kindOf(rt) == KInt:
			prints = append(prints, fmt.Sprintf(`fmt.Printf("GOVC-RESULT %d int %%d\n", int64(r%d))`, i, i))
		case kindOf(rt) == KBool:
			prints = append(prints, fmt.Sprintf(`fmt.Printf("GOVC-RESULT %d bool %%v\n", r%d)`, i, i))
		case kindOf(rt) == KString:
			prints = append(prints, fmt.Sprintf(`fmt.Printf("GOVC-RESULT %d string %%q\n", string(r%d))`, i, i))
		default:
			prints = append(prints, fmt.Sprintf(`_ = r%d`, i))
		}
	}
	var sb strings.Builder
	sb.WriteString("package " + e.home.Name() + "\n\nimport (\n\t\"errors\"\n\t\"fmt\"\n\t\"testing\"\n")
	for path, alias := range imports {
		fmt.Fprintf(&sb, "\t%s %q\n", alias, path)
	}
	sb.WriteString(")\n\nvar _ = errors.Is\n\nfunc TestGovcReplay(t *testing.T) {\n\tdefer func() {\n\t\tif r := recover(); r != nil {\n\t\t\tfmt.Printf(\"GOVC-PANIC %v\\n\", r)\n\t\t}\n\t}()\n")
	if nres > 0 {
		fmt.Fprintf(&sb, "\t%s := %s\n", strings.Join(lhs, ", "), call)
	} else {
		fmt.Fprintf(&sb, "\t%s\n", call)
	}
	for _, p := range prints {
		sb.WriteString("\t" + p + "\n")
	}
	sb.WriteString("\tfmt.Println(\"GOVC-DONE\")\n}\n")
	dir := filepath.Join(o.Out, "replay")
	_ = os.MkdirAll(dir, 0o755)
	base := sanitize(res.Key, 40) + "-" + sanitize(ob.Name, 40)
	testFile := filepath.Join(dir, base+"_test.go")
	_ = writeFile(testFile, sb.String())
	ov := map[string]any{"Replace": map[string]string{filepath.Join(e.repo, "zz_govc_replay_test.go"): testFile}}
	ovData, _ := json.Marshal(ov)
	ovFile := filepath.Join(dir, base+".overlay.json")
	_ = os.WriteFile(ovFile, ovData, 0o644)
	cmd := exec.Command("go", "test", "-overlay", ovFile, "-vet=off", "-v", "-count=1", "-timeout", "60s", "-run", "^TestGovcReplay$", ".")
	cmd.Dir = e.repo
	env := []string{}
	for _, kv := range os.Environ() {
		if strings.HasPrefix(kv, "GOSUMDB=") || strings.HasPrefix(kv, "GOTOOLCHAIN=") || strings.HasPrefix(kv, "GOFLAGS=") || strings.HasPrefix(kv, "PATH=") {
			continue
		}
		env = append(env, kv)
	}
	env = append(env, "GOFLAGS=-mod=mod", "GOPROXY=off", "PATH="+stripGoPath(os.Getenv("PATH")))
	cmd.Env = env
	t0 := time.Now()
	out, _ := cmd.CombinedOutput()
	_ = t0
	output := string(out)
	rr := &ReplayResult{File: testFile, Output: trunc(output, 3000), Inputs: inputs}
	if strings.Contains(output, "GOVC-PANIC") {
		rr.Reproduced = ob.Implicit || ob.Kind == "ensures"
		return rr
	}
	if !strings.Contains(output, "GOVC-DONE") {
		return rr
	}
	if ob.Implicit {
		return rr // ran to completion: the panic did not reproduce
	}
	// 3. pin inputs and observed outputs in the obligation's query
	rr.Reproduced = e.confirmWithOutputs(o, res, ob, model, output)
	return rr
}

func stripGoPath(p string) string {
	var out []string
	for _, d := range strings.Split(p, ":") {
		if strings.Contains(d, "veriftools/go1.26") {
			continue
		}
		out = append(out, d)
	}
	return strings.Join(out, ":")
}

// confirmWithOutputs: is the clause false when the inputs are the model's and the results are
// the ones the real function returned?
func (e *Engine) confirmWithOutputs(o *Options, res *FuncResult, ob *Obligation, model map[string]string, output string) bool {
	var pins []string
	for _, in := range res.VC.inputs {
		if v, ok := model[in.Term.S]; ok {
			pins = append(pins, fmt.Sprintf("(assert (= %s %s))", in.Term.S, v))
		}
	}
	for _, line := range strings.Split(output, "\n") {
		f := strings.Fields(line)
		if len(f) < 4 {
			continue
		}
		switch f[0] {
		case "GOVC-RESULT":
			idx, _ := strconv.Atoi(f[1])
			if idx >= len(res.ResultTerms) {
				continue
			}
			rv := res.ResultTerms[idx]
			switch f[2] {
			case "error":
				if iv, ok := rv.(VIface); ok {
					if f[3] == "true" {
						pins = append(pins, fmt.Sprintf("(assert (= %s 0))", iv.Tag.S))
					} else {
						pins = append(pins, fmt.Sprintf("(assert (not (= %s 0)))", iv.Tag.S))
					}
				}
			case "int":
				if tv, ok := rv.(VTerm); ok {
					n := f[3]
					if strings.HasPrefix(n, "-") {
						n = "(- " + n[1:] + ")"
					}
					pins = append(pins, fmt.Sprintf("(assert (= %s %s))", tv.T.S, n))
				}
			case "bool":
				if tv, ok := rv.(VTerm); ok {
					pins = append(pins, fmt.Sprintf("(assert (= %s %s))", tv.T.S, f[3]))
				}
			case "string":
				if tv, ok := rv.(VTerm); ok {
					s, err := strconv.Unquote(strings.TrimSpace(strings.SplitN(line, " string ", 2)[1]))
					if err == nil {
						pins = append(pins, fmt.Sprintf("(assert (= (sLen %s) %d))", tv.T.S, len(s)))
						for i := 0; i < len(s) && i < 64; i++ {
							pins = append(pins, fmt.Sprintf("(assert (= (sAt %s %d) %d))", tv.T.S, i, s[i]))
						}
					}
				}
			}
		case "GOVC-ERRIS":
			idx, _ := strconv.Atoi(f[1])
			if idx >= len(res.ResultTerms) || res.ErrNoTimeout == nil {
				continue
			}
			if iv, ok := res.ResultTerms[idx].(VIface); ok {
				t := fmt.Sprintf("(errIs %s %s %s %s)", iv.Tag.S, iv.Val.S, res.ErrNoTimeout.Tag.S, res.ErrNoTimeout.Val.S)
				if f[3] == "true" {
					pins = append(pins, "(assert "+t+")")
				} else {
					pins = append(pins, "(assert (not "+t+"))")
				}
			}
		}
	}
	// the query must be taken with the complete script (results are defined at the exit)
	script := res.VC.Script(ob)
	s2 := strings.Replace(script, "(check-sat)", strings.Join(pins, "\n")+"\n(check-sat)", 1)
	f2 := strings.TrimSuffix(ob.File, ".smt2") + ".confirm.smt2"
	_ = writeFile(f2, s2)
	r2 := Solve(f2, o.Timeout, false, "")
	return r2.Status == "sat"
}
