package main

// Contract files: Gobra-style "//@" clauses in a comment-only Go file (verif_contracts.go in the
// repository, guarded by the build tag) and in /verif/specs/*.spec for assumed library contracts.

import (
	"fmt"
	"go/ast"
	"go/parser"
	"go/token"
	"os"
	"regexp"
	"sort"
	"strconv"
	"strings"
)

type Clause struct {
	Optional bool // track clauses: the pattern may match no call site
	Kind    string // requires ensures invariant decreases atcall track modifies axiom
	Props   []string
	Src     string
	Expr    *SExpr
	Exprs   []*SExpr // decreases: lexicographic tuple
	Ordinal int      // loop ordinal
	Callee  string   // atcall / track pattern
	Name    string   // track counter name
	Pos     token.Pos
	File    string
	Line    int
	Index   int
	loopPos token.Pos
}

type TrackClause = Clause

type Contract struct {
	Key       string
	Opts      map[string]string
	Requires  []*Clause
	Ensures   []*Clause
	Loops     []*Clause
	AtCalls   []*Clause
	Tracks    []*Clause
	Preserves []*Clause
	Stables   []*Clause
	Steps     []*Clause
	Dispatch  map[string][]string
	Modifies  []string
	HasMod    bool
	Trusted   bool // from a .spec file (assumed, never verified)
	File      string
	Line      int
}

type Pred struct {
	Name   string
	Params []string
	Body   *SExpr
	Src    string
}

type Lemma struct {
	Name  string
	Props []string
	Vars  []lemmaVar
	Body  *SExpr
	Src   string
	Line  int
}

type lemmaVar struct{ Name, Type string }

// TypeInv: a data-structure invariant of immutable configuration objects: assumed whenever a
// pointer of the type is read, except inside the functions that build the objects (which have to
// establish it).
type TypeInv struct {
	Type   string
	Pred   string
	Except map[string]bool
}

type ContractSet struct {
	Funcs    map[string]*Contract
	Preds    map[string]*Pred
	Axioms   []*Clause
	Ghosts   map[string]string // name -> type
	Lemmas   []*Lemma
	TypeInvs map[string]*TypeInv
	// Immutable: struct / map types (by typeKey) whose objects may only be written while they are
	// fresh (allocated by the writing function), except in the listed functions
	Immutable map[string]*TypeInv
	Order     []string
}

func newContractSet() *ContractSet {
	return &ContractSet{Funcs: map[string]*Contract{}, Preds: map[string]*Pred{}, Ghosts: map[string]string{}, TypeInvs: map[string]*TypeInv{}, Immutable: map[string]*TypeInv{}}
}

var clauseRe = regexp.MustCompile(`^(immutable|typeinv|dispatch|step|stable|preserves|requires|ensures|invariant|decreases|nobreak|atcall|track|modifies|opt|loop|axiom|pred|ghost|func|lemma)\b(\[[A-Za-z0-9, ]*\])?\s*(.*)$`)

func (cs *ContractSet) parseFile(path string, trusted bool) error {
	data, err := os.ReadFile(path)
	if err != nil {
		return err
	}
	var cur *Contract
	type pending struct {
		head string
		line int
	}
	var stmts []pending
	for i, raw := range strings.Split(string(data), "\n") {
		l := strings.TrimSpace(raw)
		if strings.HasPrefix(l, "//@") {
			l = strings.TrimSpace(l[3:])
		} else if strings.HasSuffix(path, ".go") {
			continue
		}
		if l == "" || strings.HasPrefix(l, "#") {
			continue
		}
		// strip trailing comment introduced by " // "
		if j := strings.Index(l, " // "); j >= 0 {
			l = strings.TrimSpace(l[:j])
		}
		if strings.HasPrefix(l, "|") {
			if len(stmts) > 0 {
				stmts[len(stmts)-1].head += " " + strings.TrimSpace(l[1:])
			}
			continue
		}
		stmts = append(stmts, pending{l, i + 1})
	}
	// textual macros: "define NAME = text", used as #NAME
	defs := map[string]string{}
	var kept []pending
	for _, s := range stmts {
		if strings.HasPrefix(s.head, "define ") {
			name, val, ok := strings.Cut(s.head[len("define "):], "=")
			if ok {
				defs[strings.TrimSpace(name)] = strings.TrimSpace(val)
			}
			continue
		}
		kept = append(kept, s)
	}
	stmts = kept
	for i := range stmts {
		var names []string
		for name := range defs {
			names = append(names, name)
		}
		sort.Slice(names, func(a, b int) bool { return len(names[a]) > len(names[b]) })
		for pass := 0; pass < 3 && strings.Contains(stmts[i].head, "#"); pass++ {
			for _, name := range names {
				stmts[i].head = strings.ReplaceAll(stmts[i].head, "#"+name, defs[name])
			}
		}
	}
	for _, s := range stmts {
		m := clauseRe.FindStringSubmatch(s.head)
		if m == nil {
			return fmt.Errorf("%s:%d: cannot parse clause %q", path, s.line, s.head)
		}
		kw, tag, rest := m[1], m[2], strings.TrimSpace(m[3])
		var props []string
		if tag != "" {
			for _, p := range strings.Split(tag[1:len(tag)-1], ",") {
				if p = strings.TrimSpace(p); p != "" {
					props = append(props, p)
				}
			}
		}
		mk := func(kind, src string) (*Clause, error) {
			c := &Clause{Kind: kind, Props: props, Src: src, File: path, Line: s.line}
			if src != "" {
				e, err := parseSpec(src)
				if err != nil {
					return nil, fmt.Errorf("%s:%d: %v", path, s.line, err)
				}
				c.Expr = e
			}
			return c, nil
		}
		switch kw {
		case "func":
			key := rest
			cur = &Contract{Key: key, Opts: map[string]string{}, Trusted: trusted, File: path, Line: s.line}
			if _, dup := cs.Funcs[key]; dup {
				return fmt.Errorf("%s:%d: duplicate contract for %s", path, s.line, key)
			}
			cs.Funcs[key] = cur
			cs.Order = append(cs.Order, key)
		case "opt":
			if cur == nil {
				return fmt.Errorf("%s:%d: opt outside func", path, s.line)
			}
			for _, f := range strings.Fields(rest) {
				k, v, _ := strings.Cut(f, "=")
				if v == "" {
					v = "true"
				}
				cur.Opts[k] = v
			}
		case "immutable":
			// immutable <type key> [except f1, f2, ...]
			tk := rest
			ex := map[string]bool{}
			if i := strings.Index(rest, " except "); i >= 0 {
				tk = rest[:i]
				for _, e := range strings.Split(rest[i+8:], ",") {
					ex[strings.TrimSpace(e)] = true
				}
			}
			tk = strings.TrimSpace(tk)
			cs.Immutable[tk] = &TypeInv{Type: tk, Except: ex}
			cur = nil
		case "typeinv":
			// typeinv <TypeName> <pred> [except f1, f2, ...]
			f := strings.Fields(rest)
			if len(f) < 2 {
				return fmt.Errorf("%s:%d: bad typeinv", path, s.line)
			}
			ti := &TypeInv{Type: f[0], Pred: f[1], Except: map[string]bool{}}
			if i := strings.Index(rest, " except "); i >= 0 {
				for _, e := range strings.Split(rest[i+8:], ",") {
					ti.Except[strings.TrimSpace(e)] = true
				}
			}
			cs.TypeInvs[ti.Type] = ti
			cur = nil
		case "dispatch":
			// dispatch <iface method key>: T1, T2   -- the only package types the receiver can hold
			if cur == nil {
				return fmt.Errorf("%s:%d: dispatch outside func", path, s.line)
			}
			i := strings.Index(rest, ": ")
			key := rest
			var tys []string
			if i >= 0 {
				key = strings.TrimSpace(rest[:i])
				for _, t := range strings.Split(rest[i+2:], ",") {
					if t = strings.TrimSpace(t); t == "opaque" {
						// assumed, not proved: the receiver is not one of the package's own types
						tys = append(tys, "!opaque")
					} else if t != "" && t != "none" {
						tys = append(tys, t)
					}
				}
			}
			if cur.Dispatch == nil {
				cur.Dispatch = map[string][]string{}
			}
			cur.Dispatch[key] = tys
		case "step":
			// two-state relation (uses old(...)), reflexive and transitive by construction of the
			// author: an ordinary postcondition that is also assumed after library-mediated callbacks
			if cur == nil {
				return fmt.Errorf("%s:%d: step outside func", path, s.line)
			}
			c2, err := mk("ensures", rest)
			if err != nil {
				return err
			}
			c2.Index = len(cur.Ensures) + 1
			cur.Ensures = append(cur.Ensures, c2)
			cur.Steps = append(cur.Steps, c2)
		case "stable":
			if cur == nil {
				return fmt.Errorf("%s:%d: stable outside func", path, s.line)
			}
			c2, err := mk("ensures", "old("+rest+") ==> ("+rest+")")
			if err != nil {
				return err
			}
			c2.Index = len(cur.Ensures) + 1
			cur.Ensures = append(cur.Ensures, c2)
			c3, _ := mk("ensures", rest)
			cur.Stables = append(cur.Stables, c3)
		case "preserves":
			if cur == nil {
				return fmt.Errorf("%s:%d: preserves outside func", path, s.line)
			}
			c1, err := mk("requires", rest)
			if err != nil {
				return err
			}
			c1.Index = len(cur.Requires) + 1
			cur.Requires = append(cur.Requires, c1)
			c2, _ := mk("ensures", rest)
			c2.Index = len(cur.Ensures) + 1
			cur.Ensures = append(cur.Ensures, c2)
			cur.Preserves = append(cur.Preserves, c2)
		case "requires", "ensures":
			if cur == nil {
				return fmt.Errorf("%s:%d: %s outside func", path, s.line, kw)
			}
			c, err := mk(kw, rest)
			if err != nil {
				return err
			}
			if kw == "requires" {
				c.Index = len(cur.Requires) + 1
				cur.Requires = append(cur.Requires, c)
			} else {
				c.Index = len(cur.Ensures) + 1
				cur.Ensures = append(cur.Ensures, c)
			}
		case "loop":
			// loop <n> invariant[..] expr | loop <n> decreases e1, e2
			f := strings.SplitN(rest, " ", 2)
			n, err := strconv.Atoi(strings.TrimSuffix(f[0], ":"))
			if err != nil || len(f) < 2 {
				return fmt.Errorf("%s:%d: bad loop clause", path, s.line)
			}
			m2 := clauseRe.FindStringSubmatch(strings.TrimSpace(f[1]))
			if m2 == nil || (m2[1] != "invariant" && m2[1] != "decreases" && m2[1] != "nobreak") {
				return fmt.Errorf("%s:%d: bad loop clause", path, s.line)
			}
			if m2[2] != "" {
				props = nil
				for _, p := range strings.Split(m2[2][1:len(m2[2])-1], ",") {
					if p = strings.TrimSpace(p); p != "" {
						props = append(props, p)
					}
				}
			}
			if m2[1] == "nobreak" {
				// loop <n> nobreak[..]: the loop is left only through its own condition (range
				// exhausted, condition false) or by returning; no `break` (or goto out) is reachable
				cur.Loops = append(cur.Loops, &Clause{Kind: "nobreak", Props: props, Src: "loop is left only by exhaustion or return", Ordinal: n, File: path, Line: s.line})
			} else if m2[1] == "invariant" {
				c, err := mk("invariant", strings.TrimSpace(m2[3]))
				if err != nil {
					return err
				}
				c.Ordinal = n
				cur.Loops = append(cur.Loops, c)
			} else {
				c := &Clause{Kind: "decreases", Props: props, Src: m2[3], Ordinal: n, File: path, Line: s.line}
				for _, part := range splitTopLevel(m2[3], ',') {
					e, err := parseSpec(strings.TrimSpace(part))
					if err != nil {
						return fmt.Errorf("%s:%d: %v", path, s.line, err)
					}
					c.Exprs = append(c.Exprs, e)
				}
				cur.Loops = append(cur.Loops, c)
			}
		case "atcall":
			i := strings.Index(rest, ": ")
			if i < 0 {
				return fmt.Errorf("%s:%d: atcall needs '<callee>: <expr>'", path, s.line)
			}
			c, err := mk("atcall", strings.TrimSpace(rest[i+2:]))
			if err != nil {
				return err
			}
			c.Callee = strings.TrimSpace(rest[:i])
			c.Index = len(cur.AtCalls) + 1
			cur.AtCalls = append(cur.AtCalls, c)
		case "track":
			name, pat, ok := strings.Cut(rest, "=")
			if !ok {
				return fmt.Errorf("%s:%d: track needs '<name> = <callee>'", path, s.line)
			}
			// "track n ?= callee": the callee need not be called at all (a counter that must stay 0)
			opt := strings.HasSuffix(strings.TrimSpace(name), "?")
			name = strings.TrimSuffix(strings.TrimSpace(name), "?")
			cur.Tracks = append(cur.Tracks, &Clause{Kind: "track", Name: strings.TrimSpace(name), Callee: strings.TrimSpace(pat), File: path, Line: s.line, Optional: opt})
		case "modifies":
			cur.HasMod = true
			for _, p := range splitTopLevel(rest, ',') {
				if p = strings.TrimSpace(p); p != "" {
					cur.Modifies = append(cur.Modifies, p)
				}
			}
		case "axiom":
			c, err := mk("axiom", rest)
			if err != nil {
				return err
			}
			cs.Axioms = append(cs.Axioms, c)
		case "ghost":
			f := strings.Fields(rest)
			if len(f) != 2 {
				return fmt.Errorf("%s:%d: ghost needs '<name> <type>'", path, s.line)
			}
			cs.Ghosts[f[0]] = f[1]
		case "pred":
			// pred name(a, b) = expr
			i := strings.Index(rest, "(")
			j := strings.Index(rest, ")")
			k := strings.Index(rest, "=")
			if i < 0 || j < i || k < j {
				return fmt.Errorf("%s:%d: bad pred", path, s.line)
			}
			p := &Pred{Name: strings.TrimSpace(rest[:i]), Src: strings.TrimSpace(rest[k+1:])}
			for _, a := range strings.Split(rest[i+1:j], ",") {
				if a = strings.TrimSpace(a); a != "" {
					p.Params = append(p.Params, strings.Fields(a)[0])
				}
			}
			e, err := parseSpec(p.Src)
			if err != nil {
				return fmt.Errorf("%s:%d: %v", path, s.line, err)
			}
			p.Body = e
			cs.Preds[p.Name] = p
		case "lemma":
			// lemma[Cxx] name(x int, s string): expr
			i := strings.Index(rest, "(")
			j := strings.Index(rest, "):")
			if i < 0 || j < i {
				return fmt.Errorf("%s:%d: bad lemma", path, s.line)
			}
			lm := &Lemma{Name: strings.TrimSpace(rest[:i]), Props: props, Src: strings.TrimSpace(rest[j+2:]), Line: s.line}
			for _, a := range strings.Split(rest[i+1:j], ",") {
				f := strings.Fields(strings.TrimSpace(a))
				if len(f) == 2 {
					lm.Vars = append(lm.Vars, lemmaVar{f[0], f[1]})
				}
			}
			e, err := parseSpec(lm.Src)
			if err != nil {
				return fmt.Errorf("%s:%d: %v", path, s.line, err)
			}
			lm.Body = e
			cs.Lemmas = append(cs.Lemmas, lm)
			cur = nil
		}
	}
	return nil
}

func splitTopLevel(s string, sep byte) []string {
	var out []string
	depth := 0
	start := 0
	inStr := byte(0)
	for i := 0; i < len(s); i++ {
		c := s[i]
		if inStr != 0 {
			if c == '\\' {
				i++
			} else if c == inStr {
				inStr = 0
			}
			continue
		}
		switch c {
		case '"', '\'', '`':
			inStr = c
		case '(', '[', '{':
			depth++
		case ')', ']', '}':
			depth--
		default:
			if c == sep && depth == 0 {
				out = append(out, s[start:i])
				start = i + 1
			}
		}
	}
	return append(out, s[start:])
}

// ---------------------------------------------------------------------------------------------
// spec expressions: Go expressions plus ==>, forall, and parenthesised sub-specs.

type SExpr struct {
	Kind   string // go | implies | forall | exists
	Go     ast.Expr
	Subs   map[string]*SExpr
	L, R   *SExpr
	Var    string
	Lo, Hi *SExpr
	Body   *SExpr
	Src    string
}

var forallRe = regexp.MustCompile(`^(forall|exists)\s+([A-Za-z_][A-Za-z0-9_]*)\s+in\s+\[`)

// forall x in T: body   -- quantification over all values of a Go type (string keys, objects)
var forallTypeRe = regexp.MustCompile(`^(forall|exists)\s+([A-Za-z_][A-Za-z0-9_]*)\s+in\s+([*A-Za-z_][A-Za-z0-9_.*]*)\s*:\s*(.*)$`)

func parseSpec(src string) (*SExpr, error) {
	s := strings.TrimSpace(src)
	if m := forallTypeRe.FindStringSubmatch(s); m != nil {
		body, err := parseSpec(m[4])
		if err != nil {
			return nil, err
		}
		te, err := parser.ParseExpr(m[3])
		if err != nil {
			return nil, fmt.Errorf("bad quantifier type in %q: %v", src, err)
		}
		return &SExpr{Kind: m[1] + "T", Var: m[2], Go: te, Body: body, Src: src}, nil
	}
	if m := forallRe.FindStringSubmatch(s); m != nil {
		rest := s[len(m[0]):]
		// find "):" closing the range at depth 0
		depth := 0
		end := -1
		for i := 0; i < len(rest); i++ {
			switch rest[i] {
			case '(', '[':
				depth++
			case ']':
				depth--
			case ')':
				if depth == 0 && i+1 < len(rest) && rest[i+1] == ':' {
					end = i
				} else {
					depth--
				}
			}
			if end >= 0 {
				break
			}
		}
		if end < 0 {
			return nil, fmt.Errorf("bad quantifier range in %q", src)
		}
		parts := splitTopLevel(rest[:end], ',')
		if len(parts) != 2 {
			return nil, fmt.Errorf("bad quantifier range in %q", src)
		}
		lo, err := parseSpec(parts[0])
		if err != nil {
			return nil, err
		}
		hi, err := parseSpec(parts[1])
		if err != nil {
			return nil, err
		}
		body, err := parseSpec(rest[end+2:])
		if err != nil {
			return nil, err
		}
		return &SExpr{Kind: m[1], Var: m[2], Lo: lo, Hi: hi, Body: body, Src: src}, nil
	}
	// top-level ==>
	if i := findTop(s, "==>"); i >= 0 {
		l, err := parseSpec(s[:i])
		if err != nil {
			return nil, err
		}
		r, err := parseSpec(s[i+3:])
		if err != nil {
			return nil, err
		}
		return &SExpr{Kind: "implies", L: l, R: r, Src: src}, nil
	}
	// replace parenthesised groups that contain ==> or quantifiers by placeholders
	subs := map[string]*SExpr{}
	var sb strings.Builder
	for i := 0; i < len(s); {
		c := s[i]
		if c == '"' || c == '\'' || c == '`' {
			j := i + 1
			for j < len(s) && s[j] != c {
				if s[j] == '\\' {
					j++
				}
				j++
			}
			sb.WriteString(s[i:min(j+1, len(s))])
			i = j + 1
			continue
		}
		if c == '(' {
			j := matchParen(s, i)
			if j < 0 {
				return nil, fmt.Errorf("unbalanced parentheses in %q", src)
			}
			inner := s[i+1 : j]
			if strings.Contains(inner, "==>") || strings.Contains(inner, "forall ") || strings.Contains(inner, "exists ") {
				// is this a call's argument list? (preceded by identifier char) -> handle each arg
				if i > 0 && isIdentChar(s[i-1]) {
					args := splitTopLevel(inner, ',')
					sb.WriteByte('(')
					for k, a := range args {
						if k > 0 {
							sb.WriteByte(',')
						}
						if strings.Contains(a, "==>") || strings.Contains(a, "forall ") || strings.Contains(a, "exists ") {
							sub, err := parseSpec(a)
							if err != nil {
								return nil, err
							}
							name := fmt.Sprintf("SUB__%d", len(subs))
							subs[name] = sub
							sb.WriteString(name)
						} else {
							sb.WriteString(a)
						}
					}
					sb.WriteByte(')')
				} else {
					sub, err := parseSpec(inner)
					if err != nil {
						return nil, err
					}
					name := fmt.Sprintf("SUB__%d", len(subs))
					subs[name] = sub
					sb.WriteString(name)
				}
				i = j + 1
				continue
			}
		}
		sb.WriteByte(c)
		i++
	}
	e, err := parser.ParseExpr(sb.String())
	if err != nil {
		return nil, fmt.Errorf("cannot parse %q: %v", src, err)
	}
	return &SExpr{Kind: "go", Go: e, Subs: subs, Src: src}, nil
}

func isIdentChar(c byte) bool {
	return c == '_' || c >= 'a' && c <= 'z' || c >= 'A' && c <= 'Z' || c >= '0' && c <= '9'
}

func matchParen(s string, i int) int {
	depth := 0
	for j := i; j < len(s); j++ {
		switch s[j] {
		case '"', '\'', '`':
			q := s[j]
			j++
			for j < len(s) && s[j] != q {
				if s[j] == '\\' {
					j++
				}
				j++
			}
		case '(':
			depth++
		case ')':
			depth--
			if depth == 0 {
				return j
			}
		}
	}
	return -1
}

func findTop(s, op string) int {
	depth := 0
	for i := 0; i+len(op) <= len(s); i++ {
		switch s[i] {
		case '"', '\'', '`':
			q := s[i]
			i++
			for i < len(s) && s[i] != q {
				if s[i] == '\\' {
					i++
				}
				i++
			}
		case '(', '[', '{':
			depth++
		case ')', ']', '}':
			depth--
		}
		if depth == 0 && i+len(op) <= len(s) && s[i:i+len(op)] == op {
			return i
		}
	}
	return -1
}
