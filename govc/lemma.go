package main

// Lemmas: closed formulas over specification predicates and (pure) functions of the package,
// universally quantified over typed variables; proved by refuting the negation.

import (
	"go/types"

	"golang.org/x/tools/go/ssa"
)

func (e *Engine) verifyLemma(lm *Lemma) *FuncResult {
	key := "lemma:" + lm.Name
	vc := newVC(e, key)
	x := &Exec{eng: e, vc: vc, heapSorts: map[string]Sort{}, written: map[string]bool{}, nilSeen: map[string]*ssa.BasicBlock{}, arith: "math", usedModels: map[string]bool{}, poolVals: map[string]bool{}, matched: map[string]bool{}, subLits: map[string]Term{}, boxedAddrs: map[string]VAddr{}}
	st := &State{pc: TTrue, cells: map[*ssa.Alloc]Value{}, heap: map[string]Term{}, defers: map[*ssa.Defer]deferRec{}}
	vars := map[string]TV{}
	for _, v := range lm.Vars {
		var t types.Type
		switch v.Type {
		case "int", "int64":
			t = types.Typ[types.Int64]
		case "uint32":
			t = types.Typ[types.Uint32]
		case "byte", "uint8":
			t = types.Typ[types.Uint8]
		case "string":
			t = types.Typ[types.String]
		case "bool":
			t = types.Typ[types.Bool]
		case "mathint":
			vars[v.Name] = TV{VTerm{vc.Fresh(v.Name, SInt)}, types.Typ[types.Int]}
			x.vc.inputs = append(x.vc.inputs, ModelVar{v.Name, vars[v.Name].V.(VTerm).T})
			continue
		default:
			if o := e.home.Scope().Lookup(v.Type); o != nil {
				t = o.Type()
			} else {
				t = types.Typ[types.Int]
			}
		}
		val := x.fresh(t, v.Name)
		vars[v.Name] = TV{val, t}
		x.registerInputs(v.Name, val, t, st, 0)
	}
	fr := &Frame{regs: map[ssa.Value]Value{}, entry: st}
	env := x.newEnv(fr, st, st, vars, nil)
	g := env.evalBool(lm.Body)
	res := &FuncResult{Key: key, VC: vc}
	if env.err != nil {
		res.SpecErrors = append(res.SpecErrors, key+": "+env.err.Error())
		g = vc.Fresh("specerr", SBool)
	}
	vc.AddObligation(&Obligation{Name: "lemma", Kind: "lemma", Desc: lm.Src, Cond: TTrue, Goal: g, Props: lm.Props})
	res.Obls = vc.obls
	res.SpecErrors = append(res.SpecErrors, x.specErrors...)
	for m := range x.usedModels {
		res.Models = append(res.Models, m)
	}
	return res
}
