package main

// Verification of one function: build the entry state, run the executor, emit obligations.

import (
	"fmt"
	"go/token"
	"go/types"
	"sort"
	"strings"

	"golang.org/x/tools/go/ssa"
)

type FuncResult struct {
	Key          string
	Fn           *ssa.Function
	Contract     *Contract
	VC           *VC
	Obls         []*Obligation
	SpecErrors   []string
	Unsupported  []string
	Models       []string
	Paths        int
	Blocks       int
	GenS         float64
	ResultTerms  []Value
	ErrNoTimeout *VIface
}

func (e *Engine) verifyFunction(fn *ssa.Function, ct *Contract, sweepOnly bool) *FuncResult {
	key := fnKey(fn, e.home)
	vc := newVC(e, key)
	x := &Exec{eng: e, vc: vc, top: fn, contract: ct, heapSorts: map[string]Sort{}, written: map[string]bool{},
		nilSeen: map[string]*ssa.BasicBlock{}, arith: "math", usedModels: map[string]bool{}, poolVals: map[string]bool{}, matched: map[string]bool{}, subLits: map[string]Term{}, boxedAddrs: map[string]VAddr{}}
	x.assumeNil = sweepOnly && ct == nil
	if ct != nil {
		if v := ct.Opts["arith"]; v != "" {
			x.arith = v
		}
		if ct.Opts["conv"] != "" {
			x.checkConv = true
		}
		x.counters = ct.Tracks
	}
	st := &State{pc: TTrue, cells: map[*ssa.Alloc]Value{}, heap: map[string]Term{}, defers: map[*ssa.Defer]deferRec{}}
	// parameters
	var args []Value
	for _, p := range fn.Params {
		v := x.fresh(p.Type(), p.Name())
		args = append(args, v)
		x.registerInputs(p.Name(), v, p.Type(), st, 0)
	}
	// configuration objects received as parameters satisfy their declared type invariant too
	for i, p := range fn.Params {
		if vt, ok := args[i].(VTerm); ok {
			x.typeInvFact(st, vt.T, p.Type())
		}
	}
	var free []Value
	for _, fv := range fn.FreeVars {
		free = append(free, x.fresh(fv.Type(), fv.Name()))
	}
	for _, tc := range x.counters {
		st.heap["cnt|"+tc.Name] = IntLit(0)
		x.heapSorts["cnt|"+tc.Name] = SInt
	}
	fr := &Frame{fn: fn, regs: map[ssa.Value]Value{}, args: args, free: free, top: true, contract: ct}
	// axioms and preconditions
	vars := x.frameVars(fr, true)
	for _, ax := range e.contracts.Axioms {
		env := x.newEnv(fr, st, st, vars, fn)
		env.pkg = e.home
		g := env.evalBool(ax.Expr)
		if env.err == nil {
			vc.Assert(g)
		} else {
			x.specErrors = append(x.specErrors, "axiom "+ax.Src+": "+env.err.Error())
		}
	}
	if ct != nil {
		for _, rq := range ct.Requires {
			env := x.newEnv(fr, st, st, vars, fn)
			g := env.evalBool(rq.Expr)
			if env.err != nil {
				x.specErrors = append(x.specErrors, key+": requires "+rq.Src+": "+env.err.Error())
				continue
			}
			vc.Assert(g)
		}
	}
	x.entry = st.clone()
	fr.entry = x.entry
	// loop clause positions
	exit, results := x.execFunction(fr, st)
	res := &FuncResult{Key: key, Fn: fn, Contract: ct, VC: vc, Blocks: len(fn.Blocks), ResultTerms: results}
	if o := e.home.Scope().Lookup("errNoTimeout"); o != nil {
		if v, ok := o.(*types.Var); ok {
			if g := e.globalFor(v); g != nil {
				if iv, ok := x.loadGlobal(x.entry, g, v.Type()).(VIface); ok {
					res.ErrNoTimeout = &iv
				}
			}
		}
	}
	var shown []ModelVar
	if showExprs != "" && !exit.pc.IsFalse() {
		for _, src := range strings.Split(showExprs, ";") {
			se, err := parseSpec(src)
			if err != nil {
				continue
			}
			vars := x.frameVars(fr, true)
			x.bindResults(fn, results, vars)
			env := x.newEnv(fr, exit, x.entry, vars, fn)
			tv := env.eval(se)
			if env.err != nil {
				fmt.Println("show:", src, env.err)
				continue
			}
			if ts, ok := flatten(tv.V); ok {
				for i, t := range ts {
					c := vc.Fresh("show", t.Sort)
					vc.Assert(Eq(c, t))
					shown = append(shown, ModelVar{fmt.Sprintf("SHOW %s#%d", strings.TrimSpace(src), i), c})
				}
			}
		}
		vc.inputs = append(shown, vc.inputs...)
	}
	if ct != nil && !exit.pc.IsFalse() {
		for _, en := range ct.Ensures {
			if ct.Opts["assume-ensures"] != "" {
				vc.assumption("postconditions of %s are assumed, not checked against its body (ghost ownership semantics)", key)
				break
			}
			vars := x.frameVars(fr, true)
			x.bindResults(fn, results, vars)
			env := x.newEnv(fr, exit, x.entry, vars, fn)
			g := env.evalBool(en.Expr)
			if env.err != nil {
				x.specErrors = append(x.specErrors, key+": ensures "+en.Src+": "+env.err.Error())
				g = vc.Fresh("specerr", SBool)
			}
			o := &Obligation{Name: fmt.Sprintf("ensures[%d]", en.Index), Kind: "ensures", Desc: en.Src, Cond: exit.pc, Goal: g, Props: en.Props,
				Pos: token.Position{Filename: en.File, Line: en.Line}}
			vc.AddObligation(o)
		}
		if ct.HasMod {
			x.checkModifies(fr, exit, ct)
		}
	}
	// reachability cover: the exit must be reachable under the preconditions
	if !exit.pc.IsFalse() {
		vc.AddObligation(&Obligation{Name: "cover:exit", Kind: "cover", Desc: "function exit reachable under the preconditions (vacuity guard)", Cond: exit.pc, Goal: TFalse, Cover: true})
	} else {
		vc.AddObligation(&Obligation{Name: "cover:entry", Kind: "cover", Desc: "preconditions satisfiable (vacuity guard)", Cond: TTrue, Goal: TFalse, Cover: true, prefix: 0})
	}
	if ct != nil {
		// vacuity guard: every call pattern of the contract must match a call site
		for _, cl := range append(append([]*Clause{}, ct.Tracks...), ct.AtCalls...) {
			if !x.matched[cl.Callee] && !cl.Optional {
				x.specErrors = append(x.specErrors, fmt.Sprintf("%s: call pattern %q matches no call site (vacuous clause)", key, cl.Callee))
			}
		}
	}
	res.Obls = vc.obls
	res.SpecErrors = x.specErrors
	res.Unsupported = x.unsupported
	for m := range x.usedModels {
		res.Models = append(res.Models, m)
	}
	sort.Strings(res.Models)
	return res
}

// registerInputs records model variables for counterexample extraction.
func (x *Exec) registerInputs(name string, v Value, t types.Type, st *State, depth int) {
	add := func(n string, tm Term) { x.vc.inputs = append(x.vc.inputs, ModelVar{n, tm}) }
	switch vv := v.(type) {
	case VTerm:
		if vv.T.Sort == SStr {
			add(name+".len", sLen(vv.T))
			for i := 0; i < 12 && depth == 0; i++ {
				add(fmt.Sprintf("%s[%d]", name, i), app(SInt, "sAt", vv.T, IntLit(int64(i))))
			}
			return
		}
		if strings.HasPrefix(string(vv.T.Sort), "(Array") {
			if at, ok := t.Underlying().(*types.Array); ok && at.Len() <= 16 && elemSort(vv.T.Sort) == SInt {
				for i := int64(0); i < at.Len(); i++ {
					add(fmt.Sprintf("%s[%d]", name, i), Select(vv.T, IntLit(i)))
				}
			}
			return
		}
		add(name, vv.T)
		if kindOf(t) == KRef && depth < 2 {
			stt, key := structOf(t)
			for i := 0; i < stt.NumFields(); i++ {
				ft := stt.Field(i).Type()
				switch kindOf(ft) {
				case KBool, KInt, KString, KRef, KArray:
					x.registerInputs(name+"."+stt.Field(i).Name(), x.loadField(st, vv.T, stt, key, i), ft, st, depth+1)
				case KIface:
					f := x.loadField(st, vv.T, stt, key, i).(VIface)
					add(name+"."+stt.Field(i).Name()+".tag", f.Tag)
				}
			}
		}
	case VSlice:
		add(name+".len", vv.Len)
		add(name+".cap", vv.Cap)
	case VIface:
		add(name+".tag", vv.Tag)
	case VStruct:
		if stt, ok := t.Underlying().(*types.Struct); ok {
			for i, f := range vv.F {
				x.registerInputs(name+"."+stt.Field(i).Name(), f, stt.Field(i).Type(), st, depth+1)
			}
		}
	}
}

// checkModifies: every heap key written by the body but not listed in modifies keeps its entry
// value (for listed single objects: at every other object).
func (x *Exec) checkModifies(fr *Frame, exit *State, ct *Contract) {
	vars := x.frameVars(fr, true)
	whole := map[string]bool{}
	type objField struct {
		prefix string
		obj    Term
	}
	var singles []objField
	for _, m := range ct.Modifies {
		if m == "*" {
			return
		}
		if strings.HasPrefix(m, "$") {
			whole[m[1:]] = true
			continue
		}
		e, err := parseSpec(m)
		if err != nil || e.Kind != "go" {
			x.specErrors = append(x.specErrors, ct.Key+": modifies "+m)
			continue
		}
		env := x.newEnv(fr, x.entry, x.entry, vars, fr.fn)
		if pfx, obj, ok := env.lvalue(e); ok {
			singles = append(singles, objField{pfx, obj})
			if pfx == kBufOwned || pfx == kBufLen {
				env2 := x.newEnv(fr, exit, x.entry, vars, fr.fn)
				if _, obj2, ok := env2.lvalue(e); ok && obj2.S != obj.S {
					singles = append(singles, objField{pfx, obj2})
				}
			}
		} else {
			x.specErrors = append(x.specErrors, ct.Key+": modifies "+m+" not an lvalue")
		}
	}
	var keys []string
	for k := range x.written {
		keys = append(keys, k)
	}
	sort.Strings(keys)
	for _, k := range keys {
		if strings.HasPrefix(k, "cnt|") {
			continue
		}
		skip := false
		for w := range whole {
			if strings.HasPrefix(k, w) {
				skip = true
			}
		}
		if skip {
			continue
		}
		srt := x.heapSorts[k]
		oldT := x.heapGet(x.entry, k, srt)
		newT, ok := exit.heap[k]
		if !ok || newT.S == oldT.S {
			continue
		}
		var goal Term
		var frameObj Term
		if strings.HasPrefix(string(srt), "(Array") {
			o := x.vc.Fresh("frameobj", keySort(srt))
			frameObj = o
			var excl []Term
			for _, s := range singles {
				if k == s.prefix || strings.HasPrefix(k, s.prefix+"#") {
					excl = append(excl, Neq(o, s.obj))
				}
			}
			// objects allocated by this call are not part of the caller-visible frame
			if keySort(srt) == SInt {
				excl = append(excl, Gt(o, IntLit(0))) // nil has no fields
			}
			if k == kBufLen {
				// only buffers owned by somebody on entry are framed (see applyModifies)
				excl = append(excl, Select(x.heapGet(x.entry, kBufOwned, arrOf(SBool)), o))
			}
			goal = Implies(And(excl...), Eq(Select(newT, o), Select(oldT, o)))
		} else {
			goal = Eq(newT, oldT)
		}
		fo := &Obligation{Name: "frame:" + k, Kind: "frame", Desc: "heap location " + k + " is not modified outside the modifies clause", Cond: exit.pc, Goal: goal}
		if frameObj.Valid() {
			fo.Inputs = append([]ModelVar{{"FRAMEOBJ", frameObj}, {"FRAMEOBJ.old", Select(oldT, frameObj)}, {"FRAMEOBJ.new", Select(newT, frameObj)}}, x.vc.inputs...)
		}
		x.vc.AddObligation(fo)
	}
}
