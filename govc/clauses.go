package main

// Evaluation of contract clauses in the context of a frame (parameters, results, locals).

import (
	"go/ast"
	"go/token"
	"go/types"
	"sort"
	"strconv"
	"strings"

	"golang.org/x/tools/go/ssa"
)

// localsOf resolves Go local variable names to their cells (NaiveForm keeps every local as a
// named Alloc). With several declarations of one name the last one declared before pos wins.
func (x *Exec) localsOf(fr *Frame, st *State, pos token.Pos) func(string) (TV, bool) {
	return func(name string) (TV, bool) {
		switch name {
		case "rangeiter":
			name = "rangeint.iter"
		}
		// "name__n": the n-th declaration (in source order) of a local called name
		if i := strings.LastIndex(name, "__"); i > 0 {
			if n, err := strconv.Atoi(name[i+2:]); err == nil && n > 0 {
				var cands []*ssa.Alloc
				for _, b := range fr.fn.Blocks {
					for _, in := range b.Instrs {
						if a, ok := in.(*ssa.Alloc); ok && a.Comment == name[:i] {
							cands = append(cands, a)
						}
					}
				}
				sort.Slice(cands, func(i, j int) bool { return cands[i].Pos() < cands[j].Pos() })
				if n <= len(cands) {
					a := cands[n-1]
					et := a.Type().(*types.Pointer).Elem()
					if v, ok := st.cells[a]; ok {
						return TV{v, et}, true
					}
					return TV{x.fresh(et, "undecl."+name), et}, true
				}
				return TV{}, false
			}
		}
		var best *ssa.Alloc
		for _, b := range fr.fn.Blocks {
			for _, in := range b.Instrs {
				if a, ok := in.(*ssa.Alloc); ok && a.Comment == name {
					if best == nil || (a.Pos() > best.Pos() && (!pos.IsValid() || a.Pos() <= pos)) {
						best = a
					} else if !a.Pos().IsValid() && !best.Pos().IsValid() && fr.curBlk != nil &&
						a.Block().Index > best.Block().Index && a.Block().Index <= fr.curBlk.Index {
						// synthetic locals (range loop counters) carry no position: take the one
						// declared latest among those declared before the current block
						best = a
					}
				}
			}
		}
		if best == nil {
			return TV{}, false
		}
		et := best.Type().(*types.Pointer).Elem()
		if v, ok := fr.regs[best]; ok {
			if ref, isRef := v.(VTerm); isRef && kindOf(et) == KStruct {
				return TV{ref, types.NewPointer(et)}, true
			}
		}
		if v, ok := st.cells[best]; ok {
			return TV{v, et}, true
		}
		// declared later on this path: an arbitrary value
		return TV{x.fresh(et, "undecl."+name), et}, true
	}
}

func (x *Exec) frameVars(fr *Frame, useEntry bool) map[string]TV {
	vars := map[string]TV{}
	for i, p := range fr.fn.Params {
		if i < len(fr.args) && p.Name() != "" && p.Name() != "_" {
			vars[p.Name()] = TV{fr.args[i], p.Type()}
		}
	}
	return vars
}

func (x *Exec) evalClause(fr *Frame, c *Clause, st, old *State, results []Value) Term {
	return x.evalClauseArgs(fr, c, st, old, results, nil)
}

func (x *Exec) evalClauseArgs(fr *Frame, c *Clause, st, old *State, results []Value, atArgs []TV) Term {
	vars := x.frameVars(fr, true)
	if results != nil {
		x.bindResults(fr.fn, results, vars)
	}
	env := x.newEnv(fr, st, old, vars, fr.fn)
	env.atArgs = atArgs
	if c.Kind == "invariant" || c.Kind == "atcall" || c.Kind == "decreases" {
		// parameters denote their current (possibly reassigned) value inside the body
		loc := x.localsOf(fr, st, c.loopPos)
		env.locals = loc
		for i, p := range fr.fn.Params {
			_ = i
			if tv, ok := loc(p.Name()); ok {
				env.vars[p.Name()] = tv
			}
		}
		// old(param) must still mean the entry value: handled in Env.ident via inOld
		env.entryVars = x.frameVars(fr, true)
	}
	g := env.evalBool(c.Expr)
	if env.err != nil {
		x.specErrors = append(x.specErrors, fr.fn.Name()+": "+c.Src+": "+env.err.Error())
		return x.vc.Fresh("specerr", SBool)
	}
	return g
}

func (x *Exec) evalMeasure(fr *Frame, c *Clause, st *State) []Term {
	var out []Term
	for _, e := range c.Exprs {
		vars := x.frameVars(fr, true)
		env := x.newEnv(fr, st, fr.entry, vars, fr.fn)
		loc := x.localsOf(fr, st, token.NoPos)
		env.locals = loc
		for _, p := range fr.fn.Params {
			if tv, ok := loc(p.Name()); ok {
				env.vars[p.Name()] = tv
			}
		}
		t, ok := tvTerm(env.eval(e))
		if !ok || env.err != nil {
			x.specErrors = append(x.specErrors, fr.fn.Name()+": decreases "+c.Src)
			return nil
		}
		if t.Sort == SBool {
			t = Ite(t, IntLit(1), IntLit(0))
		}
		out = append(out, t)
	}
	return out
}

// lvalueGo resolves "x.f" to the heap key prefix of field f and the object holding it.
func (env *Env) lvalueGo(e *SExpr) (string, Term, bool) {
	if call, ok := e.Go.(*ast.CallExpr); ok && len(call.Args) == 1 {
		if id, ok := call.Fun.(*ast.Ident); ok && id.Name == "mapobj" {
			v := env.expr(call.Args[0])
			t, ok := tvTerm(v)
			if !ok || env.err != nil || v.T == nil || kindOf(v.T) != KMap {
				return "", Term{}, false
			}
			return env.x.eng.mapShape(v.T).key, t, true
		}
		if id, ok := call.Fun.(*ast.Ident); ok && (id.Name == "owned" || id.Name == "blen") {
			t, ok := tvTerm(env.expr(call.Args[0]))
			if !ok || env.err != nil {
				return "", Term{}, false
			}
			if id.Name == "owned" {
				return kBufOwned, t, true
			}
			return kBufLen, t, true
		}
	}
	sel, ok := e.Go.(*ast.SelectorExpr)
	if !ok {
		return "", Term{}, false
	}
	base := env.expr(sel.X)
	if env.err != nil || base.T == nil {
		return "", Term{}, false
	}
	obj, index, _ := types.LookupFieldOrMethod(base.T, true, env.pkg, sel.Sel.Name)
	if fv, ok := obj.(*types.Var); !ok || !fv.IsField() {
		return "", Term{}, false
	}
	cur := base
	for n, i := range index {
		stt, key := structOf(cur.T)
		ref, isRef := cur.V.(VTerm)
		if stt == nil || !isRef {
			return "", Term{}, false
		}
		if n == len(index)-1 {
			return fieldKey(key, stt, i), ref.T, true
		}
		ft := stt.Field(i).Type()
		if kindOf(ft) == KStruct {
			cur = TV{VTerm{env.x.subRef(ref.T, key, stt, i)}, types.NewPointer(ft)}
		} else {
			cur = TV{env.x.loadField(env.state(), ref.T, stt, key, i), ft}
		}
	}
	return "", Term{}, false
}
