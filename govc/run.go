package main

import "time"

type ReplayResult struct {
	File       string `json:"file"`
	Reproduced bool   `json:"reproduced"`
	Output     string `json:"output"`
}

func runProperty(eng *Engine, o *Options, start time.Time) int { return 0 }
