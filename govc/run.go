package main

// Property runner: selects the functions and obligations serving a property, discharges them,
// applies the known-findings file and the committed baseline, writes evidence, prints verdicts.

import (
	"encoding/json"
	"fmt"
	"os"
	"path/filepath"
	"sort"
	"strings"
	"time"

	"golang.org/x/tools/go/ssa"
)

type ReplayResult struct {
	File       string            `json:"file"`
	Reproduced bool              `json:"reproduced"`
	Output     string            `json:"output"`
	Inputs     map[string]string `json:"inputs,omitempty"`
}

type KnownFinding struct {
	ID         string `json:"id"`
	Property   string `json:"property"`
	Function   string `json:"function"`
	Obligation string `json:"obligation"`
	What       string `json:"what"`
	Status     string `json:"status"` // open | fixed
	Commit     string `json:"commit,omitempty"`
	// Inputs: specification expression over the function's parameters describing the failing
	// inputs of this finding. The obligation must hold for all other inputs, else a VIOLATION
	// is reported in addition.
	Inputs string `json:"inputs,omitempty"`
}

type knownFile struct {
	Findings []KnownFinding `json:"findings"`
	Fixed    []string       `json:"fixed"`
}

func loadKnown(path string) []KnownFinding {
	var kf knownFile
	data, err := os.ReadFile(path)
	if err != nil {
		return nil
	}
	if err := json.Unmarshal(data, &kf); err != nil {
		fmt.Fprintln(os.Stderr, "govc: bad known findings file:", err)
		os.Exit(3)
	}
	return kf.Findings
}

func hasProp(props []string, p string) bool {
	for _, q := range props {
		if q == p {
			return true
		}
	}
	return false
}

func contractServes(ct *Contract, prop string) bool {
	for _, cl := range [][]*Clause{ct.Requires, ct.Ensures, ct.Loops, ct.AtCalls} {
		for _, c := range cl {
			if hasProp(c.Props, prop) {
				return true
			}
		}
	}
	return false
}

// relevant: does the obligation count for the property?
func relevant(ob *Obligation, prop string) bool {
	if len(ob.Props) == 0 {
		return true // implicit safety, call-site preconditions, frames, covers: supporting obligations
	}
	return hasProp(ob.Props, prop)
}

type evidence struct {
	PropertyID  string         `json:"property_id"`
	Tier        string         `json:"tier"`
	Seed        int            `json:"seed"`
	Level       string         `json:"level"`
	Coverage    map[string]any `json:"coverage"`
	Assumptions []string       `json:"assumptions"`
	WallS       float64        `json:"wall_s"`
	Violations  int            `json:"violations"`
}

func runProperty(eng *Engine, o *Options, start time.Time) int {
	prop := o.Prop
	if prop == "" {
		fmt.Fprintln(os.Stderr, "govc: -prop required")
		return 3
	}
	known := loadKnown(filepath.Join(o.stateDir(), "known_findings.json"))
	// 1. functions
	var keys []string
	for _, k := range eng.contracts.Order {
		ct := eng.contracts.Funcs[k]
		if ct.Trusted {
			continue
		}
		if contractServes(ct, prop) && ct.Opts["inline"] == "" {
			keys = append(keys, k)
		}
	}
	sweepKeys := map[string]bool{}
	if o.Sweep {
		var all []string
		for k, fn := range eng.funcs {
			if fn.Pkg == nil || fn.Pkg.Pkg != eng.home || fn.Synthetic != "" || len(fn.Blocks) == 0 || fn.Name() == "init" {
				continue
			}
			if ct := eng.contracts.Funcs[k]; ct != nil && ct.Opts["inline"] != "" {
				continue
			}
			all = append(all, k)
		}
		sort.Strings(all)
		have := map[string]bool{}
		for _, k := range keys {
			have[k] = true
		}
		for _, k := range all {
			if !have[k] {
				keys = append(keys, k)
				sweepKeys[k] = true
			}
		}
	}
	baseline := loadBaseline(filepath.Join(o.stateDir(), "baseline", prop+".json"))
	if o.UpdateBaseline {
		baseline = nil
	}
	notClaimed := []string{}
	skippedUnclaimed := 0
	var missing []string
	var results []*FuncResult
	genStart := time.Now()
	for _, k := range keys {
		fn := eng.funcs[k]
		if fn == nil {
			missing = append(missing, k)
			continue
		}
		t0 := time.Now()
		res := safeVerify2(eng, fn, eng.contracts.Funcs[k], sweepKeys[k])
		res.GenS = time.Since(t0).Seconds()
		// keep only relevant obligations
		var kept []*Obligation
		for _, ob := range res.Obls {
			if sweepKeys[k] && !ob.Implicit && ob.Kind != "cover" && ob.Kind != "immut" {
				continue
			}
			if o.Sweep && prop != "C11" && ob.Kind != "cover" && !hasProp(ob.Props, prop) {
				// property-specific sweeps (C15: immutability of configuration) keep only the
				// obligations written for that property
				continue
			}
			if sweepKeys[k] && ob.Implicit && baseline != nil && o.Tier != "thorough" && !ob.Cover && !baseline[res.Key+"/"+ob.Name] {
				// quick sweep: implicit obligations of contract-less functions that were not
				// provable when the baseline was recorded are not claimed and not re-solved
				skippedUnclaimed++
				continue
			}
			if relevant(ob, prop) {
				kept = append(kept, ob)
			}
		}
		res.Obls = kept
		results = append(results, res)
	}
	// lemmas
	for _, lm := range eng.contracts.Lemmas {
		if hasProp(lm.Props, prop) {
			results = append(results, eng.verifyLemma(lm))
		}
	}
	genS := time.Since(genStart).Seconds()
	solveStart := time.Now()
	solveAll(eng, o, results)
	solveS := time.Since(solveStart).Seconds()

	// 2. classify
	rc := 0
	var lines []string
	nObl, nDis, nKnown, nCover := 0, 0, 0, 0
	coverInconclusive := []string{}
	var baselineGone []string
	byBackend := map[string]int{}
	solverTime := 0.0
	var samples []any
	var specErrs []string
	var undecided []string
	violations := 0
	var funcsUnder []string
	assumptions := map[string]bool{}
	trusted := map[string]bool{}
	notes := map[string]bool{}
	var dischargedNames []string
	for _, res := range results {
		if res.Contract != nil {
			funcsUnder = append(funcsUnder, res.Key)
		}
		specErrs = append(specErrs, res.SpecErrors...)
		for _, m := range res.Models {
			trusted["library model: "+m] = true
		}
		if res.VC != nil {
			for a := range res.VC.assume {
				assumptions[a] = true
			}
			for n := range res.VC.notes {
				notes[n] = true
			}
		}
		for _, ob := range res.Obls {
			full := res.Key + "/" + ob.Name
			if ob.Cover {
				nCover++
				switch ob.Status {
				case "cover-ok":
				case "cover-fail":
					// the preconditions and assumed contracts are contradictory: everything
					// "proved" for this function would be vacuous
					undecided = append(undecided, full+" (vacuity guard: exit unreachable, "+ob.Res.Status+")")
				default:
					// no solver found a model of the whole function within the timeout. The same
					// solvers, on the same context, did not derive a contradiction either (that
					// would have been "unsat"), so no obligation was discharged by a contradiction
					// they could find; recorded, not an alarm.
					coverInconclusive = append(coverInconclusive, full)
				}
				continue
			}
			nObl++
			solverTime += ob.Res.TimeS
			if ob.Status == "discharged" {
				nDis++
				byBackend[ob.Res.Solver]++
				dischargedNames = append(dischargedNames, full)
				if len(samples) < 6 {
					samples = append(samples, map[string]any{"obligation": full, "kind": ob.Kind, "clause": ob.Desc, "result": "unsat", "solver": ob.Res.Solver, "time_s": round3(ob.Res.TimeS), "smt_file": ob.File})
				}
				continue
			}
			// failed or unknown
			kf := matchKnown(known, prop, res.Key, ob.Name)
			if kf != nil {
				// the obligation must hold for every input outside the recorded ones
				okOutside := true
				if kf.Inputs != "" {
					okOutside = eng.holdsOutside(o, res, ob, kf.Inputs)
				}
				if okOutside {
					nKnown++
					lines = append(lines, fmt.Sprintf("KNOWN-FINDING: property=%s %s %s/%s %s", prop, kf.ID, res.Key, ob.Name, kf.What))
					continue
				}
			}
			rp := eng.replay(o, res, ob)
			ob.Replay = rp
			rfile := writeReplayFile(o, prop, res, ob, rp)
			inBase := baseline[full] || (baseline == nil && !sweepKeys[res.Key])
			// a clause written in a contract (ensures, atcall, invariant, call-site requires, frame)
			// that the solver refutes is a violation whether or not an obligation of that name
			// existed when the baseline was recorded; the baseline only arbitrates the implicit
			// safety obligations and solver timeouts
			explicitRefuted := !ob.Implicit && ob.Res.Status == "sat"
			switch {
			case rp != nil && rp.Reproduced:
				violations++
				lines = append(lines, fmt.Sprintf("VIOLATION property=%s replay=%s obligation=%s", prop, rfile, full))
			case inBase || explicitRefuted:
				violations++
				lines = append(lines, fmt.Sprintf("VIOLATION property=%s replay=%s obligation=%s no-failing-input-found", prop, rfile, full))
			case sweepKeys[res.Key]:
				// zero-annotation sweep: without a contract the function's context is unconstrained,
				// so an implicit obligation that was never provable is "not claimed", not an alarm
				notClaimed = append(notClaimed, full+" ("+ob.Res.Status+")")
			default:
				undecided = append(undecided, full+" ("+ob.Res.Status+", not in baseline, no replayed input)")
			}
		}
	}
	sort.Strings(funcsUnder)
	for _, m := range missing {
		undecided = append(undecided, "missing="+m)
	}
	for _, e := range specErrs {
		undecided = append(undecided, "spec-error: "+e)
	}
	// baseline obligations that no longer exist cannot be decided
	if baseline != nil {
		have := map[string]bool{}
		for _, res := range results {
			for _, ob := range res.Obls {
				have[res.Key+"/"+ob.Name] = true
			}
		}
		var gone []string
		for b := range baseline {
			if !have[b] {
				gone = append(gone, b)
			}
		}
		sort.Strings(gone)
		// Obligation names contain source text, so a harmless edit renames them. An obligation
		// that is no longer generated cannot fail; it is recorded, not reported.
		baselineGone = gone
	}
	for _, l := range lines {
		fmt.Println(l)
	}
	for _, u := range undecided {
		fmt.Printf("UNDECIDED property=%s %s\n", prop, u)
	}
	if violations > 0 {
		rc = 1
	} else if len(undecided) > 0 {
		rc = 2
	}
	if nObl == 0 {
		fmt.Printf("UNDECIDED property=%s no obligations generated\n", prop)
		rc = 2
	}
	if o.UpdateBaseline && (rc == 0 || o.Sweep) {
		saveBaseline(filepath.Join(o.stateDir(), "baseline", prop+".json"), dischargedNames)
	}
	// 3. evidence
	var asm []string
	for a := range assumptions {
		asm = append(asm, a)
	}
	sort.Strings(asm)
	asm = append(asm, standingAssumptions...)
	var tb []string
	for t := range trusted {
		tb = append(tb, t)
	}
	sort.Strings(tb)
	tb = append([]string{"go/packages + go/types + go/ssa (x/tools v0.50.0, NaiveForm)", "govc VC generator (/verif/govc)", "z3 5.1.0, z3 4.8.12, cvc5 1.0 (raced; thorough tier requires agreement)"}, tb...)
	var nts []string
	for n := range notes {
		nts = append(nts, n)
	}
	sort.Strings(nts)
	if len(nts) > 40 {
		nts = append(nts[:40], fmt.Sprintf("… %d more", len(nts)-40))
	}
	ev := evidence{PropertyID: prop, Tier: o.Tier, Seed: o.Seed, Level: "proof", WallS: round3(time.Since(start).Seconds()), Violations: violations, Assumptions: asm}
	ev.Coverage = map[string]any{
		"obligations": nObl, "discharged": nDis, "known_findings": nKnown, "vacuity_covers": nCover, "vacuity_covers_inconclusive": coverInconclusive, "baseline_obligations_no_longer_generated": baselineGone, "sweep_not_claimed": notClaimed, "sweep_not_claimed_skipped_in_quick": skippedUnclaimed,
		"checker_cmd":               fmt.Sprintf("/verif/check %s %s", prop, o.Tier),
		"trusted_base":              tb,
		"functions_under_contract":  funcsUnder,
		"functions_checked":         len(results),
		"by_backend":                byBackend,
		"solver_time_s":             round3(solverTime),
		"generation_time_s":         round3(genS),
		"solve_wall_s":              round3(solveS),
		"load_time_s":               round3(eng.loadTime),
		"samples":                   samples,
		"undecided":                 undecided,
		"not_modelled":              nts,
		"timeout_s":                 o.Timeout,
		"solver_agreement_required": o.Agree,
	}
	if extra := extraEvidence[prop]; extra != nil {
		for k, v := range extra {
			ev.Coverage[k] = v
		}
	}
	edir := filepath.Join(filepath.Dir(o.Out), "evidence")
	if o.State != "" {
		edir = filepath.Join(o.Out, "evidence")
	}
	_ = os.MkdirAll(edir, 0o755)
	data, _ := json.MarshalIndent(ev, "", " ")
	_ = os.WriteFile(filepath.Join(edir, prop+".json"), data, 0o644)
	fmt.Printf("govc: property %s: %d obligations, %d discharged, %d known findings, %d violations, %d undecided; %d functions; %.1fs\n",
		prop, nObl, nDis, nKnown, violations, len(undecided), len(results), time.Since(start).Seconds())
	return rc
}

var extraEvidence = map[string]map[string]any{}

var standingAssumptions = []string{
	"sequential semantics: goroutine scheduling and memory-model effects are not modelled; sync.Mutex operations are no-ops",
	"bodies of functions outside connectrpc.com/vanguard are replaced by the assumed library models listed in trusted_base, or havocked",
	"distinct allocation sites yield distinct objects; objects allocated by the function under verification are distinct from all pre-existing objects",
	"callbacks out of the package (http.Handler.ServeHTTP, user codecs/compressors) may modify any heap location (modelled as havoc) but not local variables",
	"strings are modelled as uninterpreted values with length and byte-at functions; formatting functions are uninterpreted",
}

func round3(f float64) float64 { return float64(int(f*1000+0.5)) / 1000 }

func safeVerify(eng *Engine, fn *ssa.Function, ct *Contract) (res *FuncResult) {
	return safeVerify2(eng, fn, ct, false)
}

func safeVerify2(eng *Engine, fn *ssa.Function, ct *Contract, sweep bool) (res *FuncResult) {
	defer func() {
		if r := recover(); r != nil {
			res = &FuncResult{Key: fnKey(fn, eng.home), Fn: fn, Contract: ct, SpecErrors: []string{fmt.Sprintf("generator panic in %s: %v", fn.Name(), r)}}
		}
	}()
	return eng.verifyFunction(fn, ct, sweep)
}

func matchKnown(known []KnownFinding, prop, fn, ob string) *KnownFinding {
	for i := range known {
		k := &known[i]
		if k.Status == "fixed" {
			continue
		}
		if k.Function == fn && k.Obligation == ob && (k.Property == prop || strings.Contains(k.Property, prop)) {
			return k
		}
	}
	return nil
}

func loadBaseline(path string) map[string]bool {
	data, err := os.ReadFile(path)
	if err != nil {
		return nil
	}
	var names []string
	if json.Unmarshal(data, &names) != nil {
		return nil
	}
	m := map[string]bool{}
	for _, n := range names {
		m[n] = true
	}
	return m
}

func saveBaseline(path string, names []string) {
	sort.Strings(names)
	_ = os.MkdirAll(filepath.Dir(path), 0o755)
	data, _ := json.MarshalIndent(names, "", " ")
	_ = os.WriteFile(path, data, 0o644)
}

func writeReplayFile(o *Options, prop string, res *FuncResult, ob *Obligation, rp *ReplayResult) string {
	dir := filepath.Join(o.Out, "replay")
	_ = os.MkdirAll(dir, 0o755)
	path := filepath.Join(dir, prop+"-"+sanitize(res.Key, 40)+"-"+sanitize(ob.Name, 50)+".json")
	model := map[string]string{}
	for _, in := range ob.Inputs {
		if v, ok := ob.Res.Model[in.Term.S]; ok {
			model[in.Name] = v
		}
	}
	rec := map[string]any{
		"property": prop, "function": res.Key, "obligation": ob.Name, "kind": ob.Kind, "clause": ob.Desc,
		"position": ob.Pos.String(), "solver_status": ob.Res.Status, "solver": ob.Res.Solver, "per_solver": ob.Res.PerTool,
		"solver_output": trunc(ob.Res.Output, 4000), "model": model, "smt_file": ob.File, "replay": rp,
	}
	data, _ := json.MarshalIndent(rec, "", " ")
	_ = os.WriteFile(path, data, 0o644)
	return path
}

// holdsOutside re-checks a failing obligation under the assumption that the inputs are not the
// ones recorded for a known finding.
func (e *Engine) holdsOutside(o *Options, res *FuncResult, ob *Obligation, inputs string) bool {
	if res.Fn == nil {
		return false
	}
	se, err := parseSpec(inputs)
	if err != nil {
		fmt.Fprintln(os.Stderr, "govc: known finding inputs:", err)
		return false
	}
	// re-generate the function's VC with the extra assumption not(inputs)
	ct := res.Contract
	var ct2 Contract
	if ct != nil {
		ct2 = *ct
	} else {
		ct2 = Contract{Key: res.Key, Opts: map[string]string{}}
	}
	neg := &SExpr{Kind: "implies", L: se, R: &SExpr{Kind: "go", Go: falseIdent, Src: "false"}, Src: "!(" + inputs + ")"}
	ct2.Requires = append(append([]*Clause{}, ct2.Requires...), &Clause{Kind: "requires", Expr: neg, Src: neg.Src, Index: 99})
	r2 := safeVerify(e, res.Fn, &ct2)
	for _, ob2 := range r2.Obls {
		if ob2.Name == ob.Name {
			r2.Obls = []*Obligation{ob2}
			solveAll(e, o, []*FuncResult{r2})
			return ob2.Status == "discharged"
		}
	}
	return false
}

// stateDir: where known_findings.json and baseline/ live (the parent of -out unless -state is given;
// with -state, evidence goes under -out so that a self-test never overwrites committed evidence).
func (o *Options) stateDir() string {
	if o.State != "" {
		return o.State
	}
	return filepath.Dir(o.Out)
}
