package main

// Library models, part 3: io.

import (
	"go/token"
	"go/types"

	"golang.org/x/tools/go/ssa"
)

// homeMethodEffect: a library function invoked method `name` on interface value w (any number of
// times). If w holds one of the package's own types, that method's effects apply: its frame is
// havocked (refined by an explicit modifies clause), and the invariants its contract declares as
// preserved / stable still hold afterwards. All of it under the guard "dynamic type is that type".
func (x *Exec) homeMethodEffect(st *State, w Value, name string) {
	iv, ok := w.(VIface)
	if !ok {
		return
	}
	var branches []edge
	var known []Term
	for _, t := range x.eng.concreteTypes {
		sel := x.eng.prog.MethodSets.MethodSet(t).Lookup(x.eng.home, name)
		if sel == nil {
			continue
		}
		fn := x.eng.prog.MethodValue(sel)
		if fn == nil || fn.Pkg == nil || !x.eng.isHome(fn.Pkg.Pkg) {
			continue
		}
		if p, isPtr := t.(*types.Pointer); isPtr {
			if x.eng.prog.MethodSets.MethodSet(p.Elem()).Lookup(x.eng.home, name) != nil {
				continue
			}
		}
		g := Eq(iv.Tag, IntLit(x.eng.typeTag(t)))
		if g.IsFalse() {
			continue
		}
		known = append(known, g)
		s2 := st.clone()
		s2.pc = x.vc.Name(And(st.pc, g), "cb")
		pre := s2.clone()
		fs := x.eng.frameOf(fn)
		if fs.all {
			x.havocAll(s2)
		}
		for _, k := range sortedKeys(fs.keys) {
			x.havocKey(s2, k, fs.keys[k])
			x.written[k] = true
		}
		if ct := x.eng.contracts.Funcs[fnKey(fn, x.eng.home)]; ct != nil && len(fn.Params) > 0 {
			rv := x.unbox(nil, pre, iv, t)
			vars := map[string]TV{fn.Params[0].Name(): {rv, fn.Params[0].Type()}}
			cfr := &Frame{fn: fn, regs: map[ssa.Value]Value{}}
			if ct.HasMod {
				// entries that mention other parameters cannot be evaluated: only receiver-rooted
				// entries are refined, anything else keeps the havoc
				x.applyModifies(cfr, s2, pre, fn, ct, vars, fs)
			}
			for _, pc := range append(append([]*Clause{}, ct.Preserves...), ct.Stables...) {
				e0 := x.newEnv(cfr, pre, pre, vars, fn)
				p0 := e0.evalBool(pc.Expr)
				e1 := x.newEnv(cfr, s2, pre, vars, fn)
				p1 := e1.evalBool(pc.Expr)
				if e0.err == nil && e1.err == nil {
					x.assume(s2, Implies(p0, p1))
				}
			}
			for _, sc := range ct.Steps {
				e1 := x.newEnv(cfr, s2, pre, vars, fn)
				p1 := e1.evalBool(sc.Expr)
				if e1.err == nil {
					x.assume(s2, p1)
				}
			}
		}
		branches = append(branches, edge{nil, TTrue, s2})
	}
	if len(branches) == 0 {
		return
	}
	rest := st.clone()
	rest.pc = And(st.pc, Not(Or(known...)))
	branches = append(branches, edge{nil, TTrue, rest})
	m := x.mergeStates(branches)
	pc := st.pc
	*st = *m
	st.pc = pc
}

func (x *Exec) bufTag() int64 {
	return x.eng.typeTag(x.eng.namedPtr("bytes", "Buffer"))
}

// growIfBuffer: if w holds a *bytes.Buffer, its length grows by n.
func (x *Exec) growIfBuffer(st *State, w Value, n Term) {
	iv, ok := w.(VIface)
	if !ok {
		return
	}
	isBuf := Eq(iv.Tag, IntLit(x.bufTag()))
	if isBuf.IsFalse() {
		return
	}
	h := x.heapGet(st, kBufLen, arrOf(SInt))
	x.heapSet(st, kBufLen, x.vc.Name(Ite(isBuf, Store(h, iv.Val, Add(Select(h, iv.Val), n)), h), "H|buf|len"))
}

func init() {
	eofIs := func(x *Exec, e VIface) Term {
		// errors.Is(e, io.EOF)
		g := x.eng.globalNamed("io", "EOF")
		if g == nil {
			return x.vc.Fresh("iseof", SBool)
		}
		st0 := x.entry
		if st0 == nil {
			return x.vc.Fresh("iseof", SBool)
		}
		eof := x.loadGlobal(st0, g, nil).(VIface)
		return x.errIs(e, eof)
	}
	_ = eofIs
	writeModel := func(x *Exec, fr *Frame, st *State, a []Value, pos token.Pos, rt types.Type) (Value, bool) {
		s, ok := a[1].(VSlice)
		if !ok {
			return nil, false
		}
		n := x.vc.Fresh("wn", SInt)
		e := x.freshErr("werr")
		x.assume(st, And(Le(IntLit(0), n), Le(n, s.Len), Implies(Lt(n, s.Len), Neq(e.Tag, IntLit(0)))))
		if iv, ok := a[0].(VIface); ok {
			isBuf := Eq(iv.Tag, IntLit(x.bufTag()))
			x.assume(st, Implies(isBuf, And(Eq(n, s.Len), Eq(e.Tag, IntLit(0)))))
		}
		x.growIfBuffer(st, a[0], n)
		return VStruct{F: []Value{VTerm{n}, e}}, true
	}
	for _, k := range []string{"(io.Writer).Write", "(io.WriteCloser).Write", "(net/http.ResponseWriter).Write"} {
		regModel(k, writeModel)
	}
	readModel := func(x *Exec, fr *Frame, st *State, a []Value, pos token.Pos, rt types.Type) (Value, bool) {
		s, ok := a[1].(VSlice)
		if !ok {
			return nil, false
		}
		n := x.vc.Fresh("rn", SInt)
		e := x.freshErr("rerr")
		x.assume(st, And(Le(IntLit(0), n), Le(n, s.Len)))
		x.havocArgs(fr, st, []Value{s}, nil)
		if iv, ok := a[0].(VIface); ok {
			// *io.LimitedReader: reads at most N bytes, decrements N by what it read, and reports
			// io.EOF (and nothing read) once N is 0. An EOF of the underlying reader is passed on
			// whatever N is - which is how a truncated body shows.
			lrT := x.eng.namedType("io", "LimitedReader")
			if stt, skey := structOf(lrT); stt != nil {
				for i := 0; i < stt.NumFields(); i++ {
					if stt.Field(i).Name() != "N" {
						continue
					}
					isLR := Eq(iv.Tag, IntLit(x.eng.typeTag(types.NewPointer(lrT))))
					key := fieldKey(skey, stt, i)
					h := x.heapGet(st, key, arrOf(SInt))
					n0 := Select(h, iv.Val)
					x.assume(st, Implies(isLR, And(Le(n, Ite(Ge(n0, IntLit(0)), n0, IntLit(0))), Implies(Le(n0, IntLit(0)), Neq(e.Tag, IntLit(0))))))
					x.heapSet(st, key, x.vc.Name(Ite(isLR, Store(h, iv.Val, Sub(n0, n)), h), "H|lrN"))
				}
			}
		}
		return VStruct{F: []Value{VTerm{n}, e}}, true
	}
	for _, k := range []string{"(io.Reader).Read", "(io.ReadCloser).Read"} {
		regModel(k, readModel)
	}
	closeModel := func(x *Exec, fr *Frame, st *State, a []Value, pos token.Pos, rt types.Type) (Value, bool) {
		return x.freshErr("cerr"), true
	}
	for _, k := range []string{"(io.Closer).Close", "(io.ReadCloser).Close", "(io.WriteCloser).Close"} {
		regModel(k, closeModel)
	}
	regModel("(error).Error", func(x *Exec, fr *Frame, st *State, a []Value, pos token.Pos, rt types.Type) (Value, bool) {
		// Error() of any error value: a pure call returning some string (the package's own
		// Error methods are checked separately)
		return x.fresh(rt, "errstr"), true
	})
	regModel("io.ReadFull", func(x *Exec, fr *Frame, st *State, a []Value, pos token.Pos, rt types.Type) (Value, bool) {
		s, ok := a[1].(VSlice)
		if !ok {
			return nil, false
		}
		x.homeMethodEffect(st, a[0], "Read")
		n := x.vc.Fresh("rfn", SInt)
		e := x.freshErr("rferr")
		x.assume(st, And(Le(IntLit(0), n), Le(n, s.Len), Eq(Eq(e.Tag, IntLit(0)), Eq(n, s.Len))))
		x.havocArgs(fr, st, []Value{s}, nil)
		return VStruct{F: []Value{VTerm{n}, e}}, true
	})
	copyModel := func(limit bool) modelFn {
		return func(x *Exec, fr *Frame, st *State, a []Value, pos token.Pos, rt types.Type) (Value, bool) {
			// composition with the package's hardLimitReader (whose Read is verified to add n to
			// h.read and to return a non-EOF error once h.read exceeds h.limit): the bytes copied
			// are exactly the growth of h.read, and a nil result means the limit was not exceeded
			var hlr Term
			var read0 Term
			hlrT := x.eng.namedType(x.eng.home.Path(), "hardLimitReader")
			stt, skey := structOf(hlrT)
			fieldIdx := func(name string) int {
				for i := 0; stt != nil && i < stt.NumFields(); i++ {
					if stt.Field(i).Name() == name {
						return i
					}
				}
				return -1
			}
			if iv, ok := a[1].(VIface); ok && stt != nil {
				if l, ok := iv.Tag.Lit(); ok && l.Int64() == x.eng.typeTag(types.NewPointer(hlrT)) && fieldIdx("read") >= 0 {
					hlr = iv.Val
					read0 = tOf(x.loadField(st, hlr, stt, skey, fieldIdx("read")))
				}
			}
			x.homeMethodEffect(st, a[1], "Read")
			x.homeMethodEffect(st, a[0], "Write")
			n := x.vc.Fresh("cpn", SInt)
			e := x.freshErr("cperr")
			x.assume(st, Ge(n, IntLit(0)))
			if hlr.Valid() {
				read1 := tOf(x.loadField(st, hlr, stt, skey, fieldIdx("read")))
				lim := tOf(x.loadField(st, hlr, stt, skey, fieldIdx("limit")))
				x.assume(st, Eq(n, Sub(read1, read0)))
				x.assume(st, Implies(Eq(e.Tag, IntLit(0)), Le(read1, lim)))
				x.vc.assumption("io.Copy over *hardLimitReader: bytes copied == growth of h.read; nil error implies h.read <= h.limit (from the verified contract of hardLimitReader.Read)")
			}
			if limit {
				k := tOf(a[2])
				x.assume(st, And(Le(n, Ite(Ge(k, IntLit(0)), k, IntLit(0))), Eq(Eq(e.Tag, IntLit(0)), Eq(n, Ite(Ge(k, IntLit(0)), k, IntLit(0))))))
			}
			x.growIfBuffer(st, a[0], n)
			return VStruct{F: []Value{VTerm{n}, e}}, true
		}
	}
	regModel("io.Copy", copyModel(false))
	regModel("io.CopyN", copyModel(true))
	regModel("io.CopyBuffer", copyModel(false))
	regModel("io.LimitReader", func(x *Exec, fr *Frame, st *State, a []Value, pos token.Pos, rt types.Type) (Value, bool) {
		lrT := x.eng.namedType("io", "LimitedReader")
		ref := x.newRef(fr)
		if stt, skey := structOf(lrT); stt != nil {
			for i := 0; i < stt.NumFields(); i++ {
				switch stt.Field(i).Name() {
				case "N":
					x.storeField(st, ref, stt, skey, i, VTerm{tOf(a[1])})
				case "R":
					x.storeField(st, ref, stt, skey, i, a[0])
				}
			}
		}
		return VIface{IntLit(x.eng.typeTag(types.NewPointer(lrT))), ref}, true
	})
}

func (e *Engine) globalNamed(pkg, name string) *ssa.Global {
	for _, p := range e.allPkgs {
		if p.Path() == pkg {
			if v, ok := p.Scope().Lookup(name).(*types.Var); ok {
				return e.globalFor(v)
			}
		}
	}
	return nil
}

// ---- net/http request helpers, context, time

// copyObject copies every field of the struct object src into a fresh object (shallow copy).
func (x *Exec) copyObject(fr *Frame, st *State, src Term, t types.Type) Term {
	stt, skey := structOf(t)
	dst := x.newRef(fr)
	if stt == nil {
		return dst
	}
	x.storeStruct(st, dst, stt, skey, x.loadStruct(st, src, stt, skey))
	return dst
}

func init() {
	regModel("(*net/http.Request).WithContext", func(x *Exec, fr *Frame, st *State, a []Value, pos token.Pos, rt types.Type) (Value, bool) {
		// a shallow copy of the request with a different context
		r := tOf(a[0])
		x.oblige(fr, st, "nil", "request.WithContext", "WithContext on nil request", pos, Neq(r, IntLit(0)), nil)
		pt, ok := rt.(*types.Pointer)
		if !ok {
			return nil, false
		}
		return VTerm{x.copyObject(fr, st, r, pt.Elem())}, true
	})
	regModel("(*net/http.Request).Context", func(x *Exec, fr *Frame, st *State, a []Value, pos token.Pos, rt types.Type) (Value, bool) {
		c := x.fresh(rt, "ctx").(VIface)
		x.vc.Assert(Gt(c.Tag, IntLit(0)))
		return c, true
	})
	regModel("context.WithCancel", func(x *Exec, fr *Frame, st *State, a []Value, pos token.Pos, rt types.Type) (Value, bool) {
		tp := rt.(*types.Tuple)
		c := x.fresh(tp.At(0).Type(), "ctx").(VIface)
		x.vc.Assert(Gt(c.Tag, IntLit(0)))
		cancel := x.vc.Fresh("cancel", SInt)
		x.vc.Assert(Gt(cancel, IntLit(0)))
		return VStruct{F: []Value{c, VFunc{T: cancel}}}, true
	})
}

// ---- protobuf descriptors: the pieces of descriptor state the GET decision depends on, as
// uninterpreted (hence deterministic) functions of the descriptor value.
func init() {
	regModel("(google.golang.org/protobuf/reflect/protoreflect.MethodDescriptor).Options", func(x *Exec, fr *Frame, st *State, a []Value, pos token.Pos, rt types.Type) (Value, bool) {
		d, ok := a[0].(VIface)
		if !ok {
			return nil, false
		}
		ft := x.vc.Fun("uf|optsTag", []Sort{SInt, SInt}, SInt)
		fv := x.vc.Fun("uf|optsVal", []Sort{SInt, SInt}, SInt)
		tag, val := app(SInt, ft, d.Tag, d.Val), app(SInt, fv, d.Tag, d.Val)
		x.fact("opts:"+tag.S, And(Gt(tag, IntLit(0)), Ge(val, IntLit(0))))
		return VIface{tag, val}, true
	})
	libFrames["(google.golang.org/protobuf/reflect/protoreflect.MethodDescriptor).Options"] = map[string]Sort{}
	regModel("(*google.golang.org/protobuf/types/descriptorpb.MethodOptions).GetIdempotencyLevel", func(x *Exec, fr *Frame, st *State, a []Value, pos token.Pos, rt types.Type) (Value, bool) {
		// generated getter: nil-safe, returns the field or IDEMPOTENCY_UNKNOWN (0)
		p := tOf(a[0])
		f := x.vc.Fun("uf|idemLevel", []Sort{SInt}, SInt)
		r := app(SInt, f, p)
		x.fact("idem:"+r.S, And(Ge(r, IntLit(0)), Le(r, IntLit(2))))
		return VTerm{x.vc.Name(Ite(Eq(p, IntLit(0)), IntLit(0), r), "idem")}, true
	})
	libFrames["(*google.golang.org/protobuf/types/descriptorpb.MethodOptions).GetIdempotencyLevel"] = map[string]Sort{}
}

// ---- net/url.Values (a map[string][]string without key canonicalisation)
func init() {
	regModel("(net/url.Values).Set", func(x *Exec, fr *Frame, st *State, a []Value, pos token.Pos, rt types.Type) (Value, bool) {
		m := tOf(a[0])
		x.oblige(fr, st, "nil", "map:url.Values.Set", "assignment to entry in nil map (url.Values.Set)", pos, Neq(m, IntLit(0)), nil)
		x.mapStore(st, x.hdrShape(), m, tOf(a[1]), x.newStrSlice1(fr, st, tOf(a[2])))
		return VStruct{}, true
	})
	libFrames["(net/url.Values).Set"] = hdrKeys()
	regModel("(net/url.Values).Encode", func(x *Exec, fr *Frame, st *State, a []Value, pos token.Pos, rt types.Type) (Value, bool) {
		// deterministic: the same map in the same heap version encodes to the same string
		m := tOf(a[0])
		key := "urlenc:" + m.S
		for _, k := range sortedKeys(hdrKeys()) {
			key += "|" + x.heapGet(st, k, hdrKeys()[k]).S
		}
		if x.encCache == nil {
			x.encCache = map[string]Term{}
		}
		if t, ok := x.encCache[key]; ok {
			return VTerm{t}, true
		}
		t := x.vc.Fresh("urlenc", SStr)
		x.vc.strFacts(t)
		x.encCache[key] = t
		return VTerm{t}, true
	})
	libFrames["(net/url.Values).Encode"] = map[string]Sort{}
	regModel("(*encoding/base64.Encoding).EncodedLen", func(x *Exec, fr *Frame, st *State, a []Value, pos token.Pos, rt types.Type) (Value, bool) {
		n := tOf(a[1])
		r := x.vc.Fresh("b64len", SInt)
		// between n and 2n+4 for every alphabet and padding mode (exactly ceil(4n/3) or 4*ceil(n/3))
		x.vc.Assert(Implies(Ge(n, IntLit(0)), And(Ge(r, n), Le(r, Add(Add(n, n), IntLit(4))))))
		return VTerm{r}, true
	})
	libFrames["(*encoding/base64.Encoding).EncodedLen"] = map[string]Sort{}
}

func init() {
	regModel("(*encoding/base64.Encoding).DecodedLen", func(x *Exec, fr *Frame, st *State, a []Value, pos token.Pos, rt types.Type) (Value, bool) {
		n := tOf(a[1])
		r := x.vc.Fresh("b64dlen", SInt)
		// n/4*3 (padded) or n*6/8 (raw): between 0 and n for n >= 0
		x.vc.Assert(Implies(Ge(n, IntLit(0)), And(Ge(r, IntLit(0)), Le(r, n))))
		return VTerm{r}, true
	})
	libFrames["(*encoding/base64.Encoding).DecodedLen"] = map[string]Sort{}
	regModel("(*encoding/base64.Encoding).Decode", func(x *Exec, fr *Frame, st *State, a []Value, pos token.Pos, rt types.Type) (Value, bool) {
		// writes at most len(dst) bytes into dst and reports how many (documented: "It writes at
		// most DecodedLen(len(src)) bytes to dst and returns the number of bytes written")
		dst, ok := a[1].(VSlice)
		if !ok {
			return nil, false
		}
		x.havocArgs(fr, st, []Value{dst}, nil)
		n := x.vc.Fresh("b64n", SInt)
		x.assume(st, And(Ge(n, IntLit(0)), Le(n, dst.Len)))
		return VStruct{F: []Value{VTerm{n}, x.freshErr("b64err")}}, true
	})
	libFrames["(*encoding/base64.Encoding).Decode"] = map[string]Sort{"elems|Int": arrOf(arrOf(SInt))}
	regModel("(*encoding/base64.Encoding).Encode", func(x *Exec, fr *Frame, st *State, a []Value, pos token.Pos, rt types.Type) (Value, bool) {
		dst, ok := a[1].(VSlice)
		if !ok {
			return nil, false
		}
		src, ok2 := a[2].(VSlice)
		if ok2 {
			// Encode panics (index out of range) when dst is shorter than EncodedLen(len(src)); the
			// weakest safe requirement that does not need the exact formula is len(dst) >= len(src)
			x.oblige(fr, st, "bounds", "b64Encode:"+x.srcText(fr.fn, pos, isCall), "base64 Encode: destination holds at least len(src) bytes", pos, Ge(dst.Len, src.Len), nil)
		}
		x.havocArgs(fr, st, []Value{dst}, nil)
		return VStruct{}, true
	})
	libFrames["(*encoding/base64.Encoding).Encode"] = map[string]Sort{"elems|Int": arrOf(arrOf(SInt))}
}

func init() {
	regModel("(*net/url.URL).EscapedPath", func(x *Exec, fr *Frame, st *State, a []Value, pos token.Pos, rt types.Type) (Value, bool) {
		// the raw (still percent-encoded) path: a pure function of the URL value
		u := tOf(a[0])
		x.oblige(fr, st, "nil", "url.EscapedPath", "EscapedPath on nil *url.URL", pos, Neq(u, IntLit(0)), nil)
		f := x.vc.Fun("ufs|escapedPath", []Sort{SInt}, SStr)
		t := app(SStr, f, u)
		x.vc.strFacts(t)
		return VTerm{t}, true
	})
	libFrames["(*net/url.URL).EscapedPath"] = map[string]Sort{}
}

func init() {
	regModel("(*net/url.URL).Query", func(x *Exec, fr *Frame, st *State, a []Value, pos token.Pos, rt types.Type) (Value, bool) {
		// parses RawQuery into a new, non-nil map (ParseQuery never returns nil)
		x.oblige(fr, st, "nil", "url.Query", "Query on nil *url.URL", pos, Neq(tOf(a[0]), IntLit(0)), nil)
		ref := x.newRef(fr)
		x.havocKeyAt(st, ref)
		return VTerm{ref}, true
	})
	libFrames["(*net/url.URL).Query"] = map[string]Sort{}
	regModel("(net/url.Values).Get", func(x *Exec, fr *Frame, st *State, a []Value, pos token.Pos, rt types.Type) (Value, bool) {
		// the first value of the key, "" if there is none (no key canonicalisation)
		m, k := tOf(a[0]), tOf(a[1])
		ms := x.hdrShape()
		v := x.mapGetVal(st, ms, m, k).(VSlice)
		first := Select(Select(x.heapGet(st, "elems|Str", arrOf(arrOf(SStr))), v.Back.Ref), v.Off)
		t := x.vc.Name(Ite(And(Neq(m, IntLit(0)), Select(x.mapDom(st, ms, m), k), Gt(v.Len, IntLit(0))), first, Term{"sEmpty", SStr}), "vget")
		x.vc.strFacts(t)
		return VTerm{t}, true
	})
	libFrames["(net/url.Values).Get"] = map[string]Sort{}
}

// havocKeyAt: the contents of a freshly produced map[string][]string object are unknown.
func (x *Exec) havocKeyAt(st *State, ref Term) {
	for _, k := range sortedKeys(hdrKeys()) {
		if k == "elems|Str" {
			continue
		}
		srt := hdrKeys()[k]
		h := x.heapGet(st, k, srt)
		var fresh Term
		switch srt {
		case arrOf(SInt):
			fresh = x.vc.Fresh("q.len", SInt)
			x.vc.Assert(Ge(fresh, IntLit(0)))
		default:
			fresh = x.vc.Fresh("q.comp", elemSort(srt))
		}
		x.heapSet(st, k, Store(h, ref, fresh))
	}
}
