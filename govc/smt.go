package main

// SMT term construction (string based, lightly simplified) and the solver race.

import (
	"bytes"
	"context"
	"fmt"
	"math/big"
	"os"
	"os/exec"
	"regexp"
	"strings"
	"time"
)

type Sort string

const (
	SInt  Sort = "Int"
	SBool Sort = "Bool"
	SStr  Sort = "Str"
	SFP   Sort = "(_ FloatingPoint 11 53)"
	SArr  Sort = "(Array Int Int)"
	SSArr Sort = "(Array Int Str)"
)

func arrOf(s Sort) Sort { return Sort("(Array Int " + string(s) + ")") }
func arrKV(k, v Sort) Sort {
	return Sort("(Array " + string(k) + " " + string(v) + ")")
}

// elemSort returns the value sort of an array sort "(Array K V)".
func elemSort(s Sort) Sort {
	str := string(s)
	if !strings.HasPrefix(str, "(Array ") {
		return SInt
	}
	str = str[len("(Array ") : len(str)-1]
	// skip key sort
	depth := 0
	for i := 0; i < len(str); i++ {
		switch str[i] {
		case '(':
			depth++
		case ')':
			depth--
		case ' ':
			if depth == 0 {
				return Sort(str[i+1:])
			}
		}
	}
	return SInt
}
func keySort(s Sort) Sort {
	str := string(s)
	if !strings.HasPrefix(str, "(Array ") {
		return SInt
	}
	str = str[len("(Array ") : len(str)-1]
	depth := 0
	for i := 0; i < len(str); i++ {
		switch str[i] {
		case '(':
			depth++
		case ')':
			depth--
		case ' ':
			if depth == 0 {
				return Sort(str[:i])
			}
		}
	}
	return SInt
}

type Term struct {
	S    string
	Sort Sort
}

var (
	TTrue  = Term{"true", SBool}
	TFalse = Term{"false", SBool}
)

func (t Term) IsTrue() bool  { return t.S == "true" }
func (t Term) IsFalse() bool { return t.S == "false" }
func (t Term) Valid() bool   { return t.S != "" }

var litRe = regexp.MustCompile(`^(\d+|\(- \d+\))$`)

func IntLit(n int64) Term { return BigLit(big.NewInt(n)) }
func BigLit(n *big.Int) Term {
	if n.Sign() < 0 {
		return Term{"(- " + new(big.Int).Neg(n).String() + ")", SInt}
	}
	return Term{n.String(), SInt}
}
func (t Term) Lit() (*big.Int, bool) {
	if t.Sort != SInt || !litRe.MatchString(t.S) {
		return nil, false
	}
	n := new(big.Int)
	if strings.HasPrefix(t.S, "(- ") {
		n.SetString(t.S[3:len(t.S)-1], 10)
		n.Neg(n)
	} else {
		n.SetString(t.S, 10)
	}
	return n, true
}
func BoolLit(b bool) Term {
	if b {
		return TTrue
	}
	return TFalse
}

func app(sort Sort, op string, args ...Term) Term {
	var sb strings.Builder
	sb.WriteByte('(')
	sb.WriteString(op)
	for _, a := range args {
		sb.WriteByte(' ')
		sb.WriteString(a.S)
	}
	sb.WriteByte(')')
	return Term{sb.String(), sort}
}

func Not(a Term) Term {
	if a.IsTrue() {
		return TFalse
	}
	if a.IsFalse() {
		return TTrue
	}
	if strings.HasPrefix(a.S, "(not ") {
		return Term{a.S[5 : len(a.S)-1], SBool}
	}
	return app(SBool, "not", a)
}
func And(xs ...Term) Term {
	var out []Term
	for _, x := range xs {
		if x.IsFalse() {
			return TFalse
		}
		if x.IsTrue() {
			continue
		}
		out = append(out, x)
	}
	if len(out) == 0 {
		return TTrue
	}
	if len(out) == 1 {
		return out[0]
	}
	return app(SBool, "and", out...)
}
func Or(xs ...Term) Term {
	var out []Term
	for _, x := range xs {
		if x.IsTrue() {
			return TTrue
		}
		if x.IsFalse() {
			continue
		}
		out = append(out, x)
	}
	if len(out) == 0 {
		return TFalse
	}
	if len(out) == 1 {
		return out[0]
	}
	return app(SBool, "or", out...)
}
func Implies(a, b Term) Term {
	if a.IsTrue() {
		return b
	}
	if a.IsFalse() || b.IsTrue() {
		return TTrue
	}
	return app(SBool, "=>", a, b)
}
func Ite(c, a, b Term) Term {
	if c.IsTrue() {
		return a
	}
	if c.IsFalse() {
		return b
	}
	if a.S == b.S {
		return a
	}
	if a.Sort == SBool {
		if a.IsTrue() && b.IsFalse() {
			return c
		}
		if a.IsFalse() && b.IsTrue() {
			return Not(c)
		}
	}
	return app(a.Sort, "ite", c, a, b)
}
func Eq(a, b Term) Term {
	if a.S == b.S {
		return TTrue
	}
	if la, ok := a.Lit(); ok {
		if lb, ok := b.Lit(); ok {
			return BoolLit(la.Cmp(lb) == 0)
		}
	}
	if a.Sort == SBool {
		if b.IsTrue() {
			return a
		}
		if b.IsFalse() {
			return Not(a)
		}
		if a.IsTrue() {
			return b
		}
		if a.IsFalse() {
			return Not(b)
		}
	}
	if a.Sort == SFP {
		return app(SBool, "fp.eq", a, b)
	}
	return app(SBool, "=", a, b)
}
func Neq(a, b Term) Term { return Not(Eq(a, b)) }

func cmp(op string, a, b Term, f func(int) bool) Term {
	if la, ok := a.Lit(); ok {
		if lb, ok := b.Lit(); ok {
			return BoolLit(f(la.Cmp(lb)))
		}
	}
	return app(SBool, op, a, b)
}
func Lt(a, b Term) Term { return cmp("<", a, b, func(c int) bool { return c < 0 }) }
func Le(a, b Term) Term { return cmp("<=", a, b, func(c int) bool { return c <= 0 }) }
func Gt(a, b Term) Term { return cmp(">", a, b, func(c int) bool { return c > 0 }) }
func Ge(a, b Term) Term { return cmp(">=", a, b, func(c int) bool { return c >= 0 }) }

func Add(a, b Term) Term {
	la, oka := a.Lit()
	lb, okb := b.Lit()
	if oka && okb {
		return BigLit(new(big.Int).Add(la, lb))
	}
	if oka && la.Sign() == 0 {
		return b
	}
	if okb && lb.Sign() == 0 {
		return a
	}
	return app(SInt, "+", a, b)
}
func Sub(a, b Term) Term {
	la, oka := a.Lit()
	lb, okb := b.Lit()
	if oka && okb {
		return BigLit(new(big.Int).Sub(la, lb))
	}
	if okb && lb.Sign() == 0 {
		return a
	}
	if a.S == b.S {
		return IntLit(0)
	}
	return app(SInt, "-", a, b)
}
func Neg(a Term) Term {
	if la, ok := a.Lit(); ok {
		return BigLit(new(big.Int).Neg(la))
	}
	return app(SInt, "-", a)
}
func Mul(a, b Term) Term {
	la, oka := a.Lit()
	lb, okb := b.Lit()
	if oka && okb {
		return BigLit(new(big.Int).Mul(la, lb))
	}
	if oka && la.Cmp(big.NewInt(1)) == 0 {
		return b
	}
	if okb && lb.Cmp(big.NewInt(1)) == 0 {
		return a
	}
	if (oka && la.Sign() == 0) || (okb && lb.Sign() == 0) {
		return IntLit(0)
	}
	return app(SInt, "*", a, b)
}

// EDiv / EMod: SMT-LIB (euclidean) div/mod; only used with positive literal divisors.
func EDiv(a, b Term) Term {
	la, oka := a.Lit()
	lb, okb := b.Lit()
	if oka && okb && lb.Sign() > 0 {
		q := new(big.Int)
		m := new(big.Int)
		q.DivMod(la, lb, m)
		return BigLit(q)
	}
	if okb && lb.Cmp(big.NewInt(1)) == 0 {
		return a
	}
	return app(SInt, "div", a, b)
}
func EMod(a, b Term) Term {
	la, oka := a.Lit()
	lb, okb := b.Lit()
	if oka && okb && lb.Sign() > 0 {
		q := new(big.Int)
		m := new(big.Int)
		q.DivMod(la, lb, m)
		return BigLit(m)
	}
	return app(SInt, "mod", a, b)
}

// TDiv / TRem: Go semantics (truncation toward zero).
func TDiv(a, b Term) Term {
	la, oka := a.Lit()
	lb, okb := b.Lit()
	if oka && okb && lb.Sign() != 0 {
		return BigLit(new(big.Int).Quo(la, lb))
	}
	if okb && lb.Sign() > 0 {
		return Ite(Ge(a, IntLit(0)), EDiv(a, b), Neg(EDiv(Neg(a), b)))
	}
	nb := Neg(b)
	return Ite(Gt(b, IntLit(0)),
		Ite(Ge(a, IntLit(0)), app(SInt, "div", a, b), Neg(app(SInt, "div", Neg(a), b))),
		Ite(Ge(a, IntLit(0)), Neg(app(SInt, "div", a, nb)), app(SInt, "div", Neg(a), nb)))
}
func TRem(a, b Term) Term {
	la, oka := a.Lit()
	lb, okb := b.Lit()
	if oka && okb && lb.Sign() != 0 {
		return BigLit(new(big.Int).Rem(la, lb))
	}
	return Sub(a, Mul(b, TDiv(a, b)))
}

func Select(arr, idx Term) Term {
	// read-over-write simplification for syntactically equal / distinct literal indices
	for strings.HasPrefix(arr.S, "(store ") {
		parts := splitTop(arr.S[1 : len(arr.S)-1])
		if len(parts) != 4 {
			break
		}
		if parts[2] == idx.S {
			return Term{parts[3], elemSort(arr.Sort)}
		}
		i1 := Term{parts[2], keySort(arr.Sort)}
		l1, ok1 := i1.Lit()
		l2, ok2 := idx.Lit()
		if ok1 && ok2 && l1.Cmp(l2) != 0 {
			arr = Term{parts[1], arr.Sort}
			continue
		}
		break
	}
	return app(elemSort(arr.Sort), "select", arr, idx)
}
func Store(arr, idx, v Term) Term { return app(arr.Sort, "store", arr, idx, v) }

// splitTop splits an s-expression body into its top-level items.
func splitTop(s string) []string {
	var out []string
	depth := 0
	start := -1
	inBar := false
	for i := 0; i < len(s); i++ {
		c := s[i]
		if inBar {
			if c == '|' {
				inBar = false
			}
			continue
		}
		switch c {
		case '|':
			inBar = true
			if start < 0 {
				start = i
			}
		case '(':
			if depth == 0 && start < 0 {
				start = i
			}
			depth++
		case ')':
			depth--
			if depth == 0 {
				out = append(out, s[start:i+1])
				start = -1
			}
		case ' ', '\n', '\t':
			if depth == 0 && start >= 0 {
				out = append(out, s[start:i])
				start = -1
			}
		default:
			if start < 0 {
				start = i
			}
		}
	}
	if start >= 0 {
		out = append(out, s[start:])
	}
	return out
}

func pow2(n int) *big.Int { return new(big.Int).Lsh(big.NewInt(1), uint(n)) }

// ---------------------------------------------------------------------------------------------
// solver race

type SolveResult struct {
	Status  string // unsat | sat | unknown | timeout | error
	Solver  string
	TimeS   float64
	Output  string // raw solver output (truncated)
	Model   map[string]string
	PerTool map[string]string
}

type solverDef struct {
	name string
	args func(file string, toSec int) []string
}

var solvers = []solverDef{
	{"z3-new", func(f string, to int) []string { return []string{"z3-new", fmt.Sprintf("-T:%d", to), f} }},
	{"z3", func(f string, to int) []string { return []string{"z3", fmt.Sprintf("-T:%d", to), f} }},
	{"cvc5", func(f string, to int) []string {
		return []string{"cvc5", "--produce-models", fmt.Sprintf("--tlimit=%d", to*1000), f}
	}},
}

func runOne(ctx context.Context, sd solverDef, file string, toSec int) (status, out string, dur float64) {
	args := sd.args(file, toSec)
	start := time.Now()
	cctx, cancel := context.WithTimeout(ctx, time.Duration(toSec+2)*time.Second)
	defer cancel()
	cmd := exec.CommandContext(cctx, args[0], args[1:]...)
	var buf bytes.Buffer
	cmd.Stdout = &buf
	cmd.Stderr = &buf
	_ = cmd.Run()
	dur = time.Since(start).Seconds()
	out = buf.String()
	first := strings.TrimSpace(strings.SplitN(out, "\n", 2)[0])
	switch first {
	case "unsat", "sat", "unknown":
		status = first
	case "timeout":
		status = "timeout"
	default:
		if cctx.Err() != nil {
			status = "timeout"
		} else if strings.Contains(out, "timeout") || strings.Contains(out, "interrupted") {
			status = "timeout"
		} else {
			status = "error"
		}
	}
	return
}

// Solve races the solvers on the query file; first definitive (sat/unsat) answer wins. With
// agree=true all solvers run to completion and disagreement (sat vs unsat) is an error.
func Solve(file string, toSec int, agree bool, only string) SolveResult {
	ctx, cancel := context.WithCancel(context.Background())
	defer cancel()
	type r struct {
		sd     solverDef
		status string
		out    string
		dur    float64
	}
	var use []solverDef
	for _, sd := range solvers {
		if only == "" || only == sd.name {
			use = append(use, sd)
		}
	}
	ch := make(chan r, len(use))
	for _, sd := range use {
		go func(sd solverDef) {
			st, out, d := runOne(ctx, sd, file, toSec)
			ch <- r{sd, st, out, d}
		}(sd)
	}
	res := SolveResult{Status: "unknown", PerTool: map[string]string{}}
	var best *r
	for i := 0; i < len(use); i++ {
		x := <-ch
		res.PerTool[x.sd.name] = x.status
		if x.status == "sat" || x.status == "unsat" {
			if best == nil {
				xx := x
				best = &xx
				if !agree {
					cancel()
					break
				}
			} else if best.status != x.status {
				res.Status = "error"
				res.Output = fmt.Sprintf("solver disagreement: %s=%s %s=%s", best.sd.name, best.status, x.sd.name, x.status)
				return res
			}
		} else if best == nil {
			if x.status == "timeout" && res.Status != "timeout" {
				res.Status = "timeout"
			}
			if len(res.Output) < 2000 {
				res.Output += x.sd.name + ": " + trunc(x.out, 600) + "\n"
			}
		}
	}
	if best != nil {
		res.Status = best.status
		res.Solver = best.sd.name
		res.TimeS = best.dur
		res.Output = trunc(best.out, 20000)
		if best.status == "sat" {
			res.Model = parseModel(best.out)
		}
	}
	return res
}

func trunc(s string, n int) string {
	if len(s) > n {
		return s[:n] + "…"
	}
	return s
}

// parseModel parses the output of (get-value (...)): ((name value) (name value) ...)
func parseModel(out string) map[string]string {
	m := map[string]string{}
	i := strings.Index(out, "\n")
	if i < 0 {
		return m
	}
	body := strings.TrimSpace(out[i+1:])
	for _, chunk := range splitTop(body) {
		if !strings.HasPrefix(chunk, "(") {
			continue
		}
		for _, pair := range splitTop(chunk[1 : len(chunk)-1]) {
			if !strings.HasPrefix(pair, "(") {
				continue
			}
			kv := splitTop(pair[1 : len(pair)-1])
			if len(kv) == 2 {
				m[kv[0]] = kv[1]
			}
		}
	}
	return m
}

func writeFile(path, content string) error {
	return os.WriteFile(path, []byte(content), 0o644)
}
