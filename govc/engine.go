package main

// Engine: loads /repo (with the verif build tag), builds SSA, parses contracts, infers frames.

import (
	"fmt"
	"go/ast"
	"go/constant"
	"go/token"
	"go/types"
	"os"
	"path/filepath"
	"sort"
	"strings"
	"sync"

	"golang.org/x/tools/go/packages"
	"golang.org/x/tools/go/ssa"
	"golang.org/x/tools/go/ssa/ssautil"
)

type Engine struct {
	httpErrOnce   sync.Once
	httpErrImm    bool
	repo          string
	fset          *token.FileSet
	pkgs          []*packages.Package
	prog          *ssa.Program
	home          *types.Package
	homeSSA       *ssa.Package
	homes         map[*types.Package]bool
	allPkgs       []*types.Package
	contracts     *ContractSet
	tags          map[string]int64
	tagTypes      map[int64]types.Type
	concreteTypes []types.Type
	frames        map[*ssa.Function]*frameSet
	globalArrays  map[*ssa.Global][]int64
	files         map[*token.File]*ast.File
	funcs         map[string]*ssa.Function // key -> function (home packages)
	addrTaken     []*ssa.Function
	loadTime      float64
}

type frameSet struct {
	keys map[string]Sort
	all  bool
}

func loadEngine(repo string, specFiles []string) (*Engine, error) {
	e := &Engine{repo: repo, tags: map[string]int64{}, tagTypes: map[int64]types.Type{}, frames: map[*ssa.Function]*frameSet{},
		globalArrays: map[*ssa.Global][]int64{}, files: map[*token.File]*ast.File{}, funcs: map[string]*ssa.Function{}, homes: map[*types.Package]bool{}}
	cfg := &packages.Config{Mode: packages.LoadAllSyntax, Dir: repo, BuildFlags: []string{"-tags=verif"},
		Env: append(os.Environ(), "GOFLAGS=-mod=mod", "GOPROXY=off")}
	pkgs, err := packages.Load(cfg, ".", "./vanguardgrpc")
	if err != nil {
		return nil, err
	}
	for _, p := range pkgs {
		for _, pe := range p.Errors {
			return nil, fmt.Errorf("load: %v", pe)
		}
	}
	e.pkgs = pkgs
	e.fset = pkgs[0].Fset
	prog, spkgs := ssautil.AllPackages(pkgs, ssa.NaiveForm|ssa.GlobalDebug)
	prog.Build()
	e.prog = prog
	e.home = pkgs[0].Types
	e.homeSSA = spkgs[0]
	for _, p := range pkgs {
		e.homes[p.Types] = true
	}
	seen := map[*types.Package]bool{}
	packages.Visit(pkgs, nil, func(p *packages.Package) {
		if !seen[p.Types] {
			seen[p.Types] = true
			e.allPkgs = append(e.allPkgs, p.Types)
		}
		for _, f := range p.Syntax {
			if tf := e.fset.File(f.Pos()); tf != nil {
				e.files[tf] = f
			}
		}
	})
	sort.Slice(e.allPkgs, func(i, j int) bool { return e.allPkgs[i].Path() < e.allPkgs[j].Path() })

	// contracts
	e.contracts = newContractSet()
	for _, sf := range specFiles {
		if err := e.contracts.parseFile(sf, true); err != nil {
			return nil, err
		}
	}
	cf := filepath.Join(repo, "verif_contracts.go")
	if _, err := os.Stat(cf); err == nil {
		if err := e.contracts.parseFile(cf, false); err != nil {
			return nil, err
		}
	}
	// functions of the home packages by key; concrete types for closed-world dispatch
	for i, sp := range spkgs {
		if sp == nil {
			continue
		}
		_ = i
		var names []string
		for n := range sp.Members {
			names = append(names, n)
		}
		sort.Strings(names)
		for _, n := range names {
			switch m := sp.Members[n].(type) {
			case *ssa.Function:
				e.addFunc(m)
			case *ssa.Type:
				t := m.Type()
				if _, isIface := t.Underlying().(*types.Interface); !isIface {
					e.concreteTypes = append(e.concreteTypes, t, types.NewPointer(t))
				}
				for _, tt := range []types.Type{t, types.NewPointer(t)} {
					ms := prog.MethodSets.MethodSet(tt)
					for k := 0; k < ms.Len(); k++ {
						if fn := prog.MethodValue(ms.At(k)); fn != nil && fn.Synthetic == "" {
							e.addFunc(fn)
						}
					}
				}
			}
		}
	}
	// stable tags for home concrete types first
	for _, t := range e.concreteTypes {
		e.typeTag(t)
	}
	e.scanInit()
	e.scanAddrTaken()
	return e, nil
}

func (e *Engine) addFunc(fn *ssa.Function) {
	if fn.Pkg == nil || !e.homes[fn.Pkg.Pkg] {
		return
	}
	key := fnKey(fn, e.home)
	if _, ok := e.funcs[key]; ok {
		return
	}
	e.funcs[key] = fn
	for _, an := range fn.AnonFuncs {
		e.addAnon(an)
	}
}

func (e *Engine) addAnon(fn *ssa.Function) {
	e.funcs[fnKey(fn, e.home)] = fn
	for _, an := range fn.AnonFuncs {
		e.addAnon(an)
	}
}

func (e *Engine) isHome(p *types.Package) bool { return e.homes[p] }

func (e *Engine) fileOf(pos token.Pos) *ast.File {
	tf := e.fset.File(pos)
	if tf == nil {
		return nil
	}
	return e.files[tf]
}

func (e *Engine) globalFor(v *types.Var) *ssa.Global {
	if v.Pkg() == nil {
		return nil
	}
	sp := e.prog.Package(v.Pkg())
	if sp == nil {
		return nil
	}
	g, _ := sp.Members[v.Name()].(*ssa.Global)
	return g
}

// scanInit records constant integer tables initialised in package init (e.g. the RPC->HTTP table).
func (e *Engine) scanInit() {
	for _, p := range e.pkgs {
		sp := e.prog.Package(p.Types)
		if sp == nil {
			continue
		}
		init := sp.Func("init")
		if init == nil {
			continue
		}
		tmp := map[*ssa.Global]map[int64]int64{}
		lits := map[*ssa.Alloc]map[int64]int64{}
		for _, b := range init.Blocks {
			for _, in := range b.Instrs {
				st, ok := in.(*ssa.Store)
				if !ok {
					continue
				}
				// *global = *complit
				if g, ok := st.Addr.(*ssa.Global); ok {
					if ld, ok := st.Val.(*ssa.UnOp); ok && ld.Op == token.MUL {
						if al, ok := ld.X.(*ssa.Alloc); ok && lits[al] != nil {
							tmp[g] = lits[al]
						}
					}
					continue
				}
				ia, ok := st.Addr.(*ssa.IndexAddr)
				if !ok {
					continue
				}
				if al, ok := ia.X.(*ssa.Alloc); ok {
					ic, ok1 := ia.Index.(*ssa.Const)
					vc, ok2 := st.Val.(*ssa.Const)
					if ok1 && ok2 && vc.Value != nil && vc.Value.Kind() == constant.Int {
						if lits[al] == nil {
							lits[al] = map[int64]int64{}
						}
						lits[al][ic.Int64()] = vc.Int64()
					}
					continue
				}
				g, ok := ia.X.(*ssa.Global)
				if !ok {
					continue
				}
				ic, ok1 := ia.Index.(*ssa.Const)
				vc, ok2 := st.Val.(*ssa.Const)
				if !ok1 || !ok2 || vc.Value == nil || vc.Value.Kind() != constant.Int {
					continue
				}
				if tmp[g] == nil {
					tmp[g] = map[int64]int64{}
				}
				tmp[g][ic.Int64()] = vc.Int64()
			}
		}
		for g, m := range tmp {
			at, ok := g.Type().(*types.Pointer).Elem().Underlying().(*types.Array)
			if !ok || int64(len(m)) != at.Len() {
				continue
			}
			// only tables never written outside init
			vals := make([]int64, at.Len())
			for i := range vals {
				vals[i] = m[int64(i)]
			}
			e.globalArrays[g] = vals
		}
	}
	// a table that any other function writes is not a constant
	for _, fn := range e.funcs {
		if fn.Name() == "init" {
			continue
		}
		for _, b := range fn.Blocks {
			for _, in := range b.Instrs {
				if st, ok := in.(*ssa.Store); ok {
					root := st.Addr
					if ia, ok := root.(*ssa.IndexAddr); ok {
						root = ia.X
					}
					if g, ok := root.(*ssa.Global); ok {
						delete(e.globalArrays, g)
					}
				}
			}
		}
	}
}

func (e *Engine) scanAddrTaken() {
	seen := map[*ssa.Function]bool{}
	for _, fn := range e.funcs {
		for _, b := range fn.Blocks {
			for _, in := range b.Instrs {
				var ops []*ssa.Value
				for _, op := range in.Operands(ops) {
					if op == nil || *op == nil {
						continue
					}
					switch v := (*op).(type) {
					case *ssa.Function:
						if call, ok := in.(ssa.CallInstruction); ok && call.Common().Value == v {
							continue
						}
						if !seen[v] {
							seen[v] = true
							e.addrTaken = append(e.addrTaken, v)
						}
					case *ssa.MakeClosure:
						if f, ok := v.Fn.(*ssa.Function); ok && !seen[f] {
							seen[f] = true
							e.addrTaken = append(e.addrTaken, f)
						}
					}
				}
				if mc, ok := in.(*ssa.MakeClosure); ok {
					if f, ok := mc.Fn.(*ssa.Function); ok && !seen[f] {
						seen[f] = true
						e.addrTaken = append(e.addrTaken, f)
					}
				}
			}
		}
	}
	sort.Slice(e.addrTaken, func(i, j int) bool { return e.addrTaken[i].String() < e.addrTaken[j].String() })
}

// ---------------------------------------------------------------------------------------------
// closed-world dispatch

func (e *Engine) closedWorld(itype types.Type) bool {
	named, ok := itype.(*types.Named)
	if !ok || named.Obj().Pkg() == nil || !e.homes[named.Obj().Pkg()] {
		return false
	}
	it := named.Underlying().(*types.Interface)
	for i := 0; i < it.NumMethods(); i++ {
		if !it.Method(i).Exported() {
			return true // only package types can implement it
		}
	}
	return false
}

func (e *Engine) implementers(itype types.Type, method string) []implementer {
	it, ok := itype.Underlying().(*types.Interface)
	if !ok {
		return nil
	}
	var out []implementer
	for _, t := range e.concreteTypes {
		if !types.Implements(t, it) {
			continue
		}
		// prefer the value type when both T and *T implement
		if p, ok := t.(*types.Pointer); ok && types.Implements(p.Elem(), it) {
			continue
		}
		sel := e.prog.MethodSets.MethodSet(t).Lookup(e.pkgOf(t), method)
		if sel == nil {
			continue
		}
		fn := e.prog.MethodValue(sel)
		if fn == nil {
			continue
		}
		// unwrap promoted-method wrappers
		out = append(out, implementer{t, fn})
	}
	return out
}

func (e *Engine) pkgOf(t types.Type) *types.Package {
	if p, ok := t.(*types.Pointer); ok {
		t = p.Elem()
	}
	if n, ok := t.(*types.Named); ok {
		return n.Obj().Pkg()
	}
	return e.home
}

// ---------------------------------------------------------------------------------------------
// inlining policy

func (e *Engine) inlinable(fn *ssa.Function) bool {
	if fn.Pkg == nil || !e.homes[fn.Pkg.Pkg] || len(fn.Blocks) == 0 {
		// closures of home functions
		if fn.Parent() != nil && len(fn.Blocks) > 0 {
			p := fn
			for p.Parent() != nil {
				p = p.Parent()
			}
			if p.Pkg != nil && e.homes[p.Pkg.Pkg] {
				return e.smallEnough(fn)
			}
		}
		return false
	}
	if ct := e.contracts.Funcs[fnKey(fn, e.home)]; ct != nil && ct.Opts["inline"] != "" {
		return true
	}
	return e.smallEnough(fn)
}

func (e *Engine) smallEnough(fn *ssa.Function) bool {
	n := 0
	_, back := blockOrder(fn)
	if len(back) > 0 {
		return false
	}
	for _, b := range fn.Blocks {
		for _, in := range b.Instrs {
			if _, ok := in.(*ssa.DebugRef); ok {
				continue
			}
			n++
		}
	}
	return n <= 60
}

// ---------------------------------------------------------------------------------------------
// frame inference: heap keys possibly written by a function (transitively)

func (e *Engine) frameOf(fn *ssa.Function) frameSet {
	if fs, ok := e.frames[fn]; ok {
		return *fs
	}
	// iterative fixpoint over the reachable call graph
	fs := &frameSet{keys: map[string]Sort{}}
	e.frames[fn] = fs
	changed := true
	visited := map[*ssa.Function]bool{}
	var order []*ssa.Function
	var collect func(f *ssa.Function)
	collect = func(f *ssa.Function) {
		if visited[f] {
			return
		}
		visited[f] = true
		order = append(order, f)
		if _, ok := e.frames[f]; !ok {
			e.frames[f] = &frameSet{keys: map[string]Sort{}}
		}
		for _, b := range f.Blocks {
			for _, in := range b.Instrs {
				if ci, ok := in.(ssa.CallInstruction); ok {
					for _, callee := range e.callees(ci) {
						collect(callee)
					}
				}
				if mc, ok := in.(*ssa.MakeClosure); ok {
					_ = mc
				}
			}
		}
	}
	collect(fn)
	for changed {
		changed = false
		for _, f := range order {
			cur := e.frames[f]
			n0, a0 := len(cur.keys), cur.all
			e.directFrame(f, cur)
			if len(cur.keys) != n0 || cur.all != a0 {
				changed = true
			}
		}
	}
	return *fs
}

func (e *Engine) callees(ci ssa.CallInstruction) []*ssa.Function {
	c := ci.Common()
	if c.IsInvoke() {
		if e.closedWorld(c.Value.Type()) {
			var out []*ssa.Function
			for _, im := range e.homeImpls(ci) {
				out = append(out, im.fn)
			}
			return out
		}
		return nil
	}
	if sc := c.StaticCallee(); sc != nil {
		return []*ssa.Function{sc}
	}
	return nil
}

func (e *Engine) directFrame(f *ssa.Function, fs *frameSet) {
	if f.Pkg != nil && !e.homes[f.Pkg.Pkg] || (f.Pkg == nil && f.Parent() == nil) {
		// library function: declared effects only
		if ks, ok := libFrames[f.String()]; ok {
			for k, s := range ks {
				fs.keys[k] = s
			}
		}
		if ct := e.contracts.Funcs[f.String()]; ct != nil {
			e.rawModifies(ct, fs)
		}
		return
	}
	if ct := e.contracts.Funcs[fnKey(f, e.home)]; ct != nil && ct.HasMod {
		// an explicit modifies clause (verified against the body) is the function's frame
		e.rawModifies(ct, fs)
		ok := true
		for _, m := range ct.Modifies {
			if m == "*" || strings.HasPrefix(m, "$") {
				continue
			}
			if !e.staticFieldKeys(f, m, fs.keys) {
				ok = false
			}
		}
		if ok {
			return
		}
	}
	cells := map[*ssa.Alloc]bool{}
	for _, b := range f.Blocks {
		for _, in := range b.Instrs {
			switch in := in.(type) {
			case *ssa.Store:
				e.storeTarget(in.Addr, cells, fs.keys)
			case *ssa.MapUpdate:
				for k, s := range e.mapKeys(in.Map.Type()) {
					fs.keys[k] = s
				}
			case ssa.CallInstruction:
				cf := e.callFrameShallow(in)
				if cf.all {
					fs.all = true
				}
				for k, s := range cf.keys {
					fs.keys[k] = s
				}
			}
		}
	}
}

// callFrameShallow: effect of one call instruction using the current (possibly partial) frames.
// homeImpls: the package implementers an interface call in the given function can reach, pruned by
// the function's dispatch clause (which the function's own verification proves).
func (e *Engine) homeImpls(ci ssa.CallInstruction) []implementer {
	c := ci.Common()
	impls := e.implementers(c.Value.Type(), c.Method.Name())
	fn := ci.Parent()
	for fn != nil && fn.Parent() != nil {
		fn = fn.Parent()
	}
	if fn == nil {
		return impls
	}
	ct := e.contracts.Funcs[fnKey(fn, e.home)]
	if ct == nil || ct.Dispatch == nil {
		return impls
	}
	allowed, ok := ct.Dispatch[e.ifaceKey(c.Value.Type(), c.Method.Name())]
	if !ok {
		return impls
	}
	var keep []implementer
	for _, im := range impls {
		name := strings.ReplaceAll(types.TypeString(im.typ, func(p *types.Package) string { return "" }), ".", "")
		for _, a := range allowed {
			if a == name {
				keep = append(keep, im)
			}
		}
	}
	return keep
}

func (e *Engine) callFrameShallow(ci ssa.CallInstruction) frameSet {
	out := frameSet{keys: map[string]Sort{}}
	c := ci.Common()
	if b, ok := c.Value.(*ssa.Builtin); ok && !c.IsInvoke() {
		switch b.Name() {
		case "delete":
			for k, s := range e.mapKeys(c.Args[0].Type()) {
				out.keys[k] = s
			}
		case "copy":
			if st, ok := c.Args[0].Type().Underlying().(*types.Slice); ok {
				if k, s, ok := elemsKey(st.Elem()); ok {
					out.keys[k] = s
				}
			}
		case "append":
			// append is modelled as always copying into a backing array it allocates, so it
			// never writes to an object that existed before the call (see appendKeys for loops)
		}
		return out
	}
	if c.IsInvoke() {
		if c.Method.Name() == "Read" {
			// the receiver may be an *io.LimitedReader, whose Read decrements N (see readModel)
			out.keys["io.LimitedReader.N"] = arrOf(SInt)
		}
		ikey := e.ifaceKey(c.Value.Type(), c.Method.Name())
		if ks, ok := libFrames[ikey]; ok {
			for k, s := range ks {
				if k == "*" {
					out.all = true
				} else {
					out.keys[k] = s
				}
			}
			return out
		}
		if ct := e.contracts.Funcs[ikey]; ct != nil {
			e.rawModifies(ct, &out)
			// the package's own implementers may also be the dynamic type
			for _, im := range e.homeImpls(ci) {
				if im.fn.Pkg != nil && e.homes[im.fn.Pkg.Pkg] {
					fs := e.frameOfCached(im.fn)
					if fs.all {
						out.all = true
					}
					for k, s := range fs.keys {
						out.keys[k] = s
					}
				}
			}
			return out
		}
		if !e.closedWorld(c.Value.Type()) && !e.exportedHomeIface(c.Value.Type()) {
			for _, im := range e.homeImpls(ci) {
				if im.fn.Pkg != nil && e.homes[im.fn.Pkg.Pkg] {
					fs := e.frameOfCached(im.fn)
					if fs.all {
						out.all = true
					}
					for k, s := range fs.keys {
						out.keys[k] = s
					}
				}
			}
		}
	}
	callees := e.callees(ci)
	if len(callees) == 0 && !c.IsInvoke() && c.StaticCallee() == nil {
		// function value
		fv := e.funcValueFrame(c.Signature())
		return fv
	}
	for _, callee := range callees {
		if ks, ok := libFrames[callee.String()]; ok && (callee.Pkg == nil || !e.homes[callee.Pkg.Pkg]) {
			// a library function with a model: the model's declared frame is its effect
			for k, s := range ks {
				if k == "*" {
					out.all = true
				} else {
					out.keys[k] = s
				}
			}
			continue
		}
		if fs, ok := e.frames[callee]; ok {
			if fs.all {
				out.all = true
			}
			for k, s := range fs.keys {
				out.keys[k] = s
			}
		} else {
			fs := e.frameOf(callee)
			if fs.all {
				out.all = true
			}
			for k, s := range fs.keys {
				out.keys[k] = s
			}
		}
		if ks, ok := libFrames[callee.String()]; ok {
			for k, s := range ks {
				if k == "*" {
					out.all = true
				} else {
					out.keys[k] = s
				}
			}
		}
	}
	return out
}

func (e *Engine) frameOfCached(fn *ssa.Function) frameSet {
	if fs, ok := e.frames[fn]; ok {
		return *fs
	}
	return e.frameOf(fn)
}

// rawModifies adds "$<heap key prefix>" and "*" entries of a contract's modifies clause.
func (e *Engine) rawModifies(ct *Contract, out *frameSet) {
	for _, m := range ct.Modifies {
		if m == "*" {
			out.all = true
		} else if strings.HasPrefix(m, "$ghost|") {
			name := m[len("$ghost|"):]
			srt := SInt
			if e.contracts.Ghosts[name] == "bool" {
				srt = SBool
			}
			out.keys["ghost|"+name] = srt
		} else if strings.HasPrefix(m, "$") {
			found := false
			for k, s := range knownHeapKeys {
				if strings.HasPrefix(k, m[1:]) {
					out.keys[k] = s
					found = true
				}
			}
			if !found {
				// "$pkg.Type." or "$pkg.Type.field": fields of a struct type of the package
				parts := strings.Split(strings.TrimSuffix(m[1:], "."), ".")
				if m == "$io.LimitedReader.N" {
					out.keys["io.LimitedReader.N"] = arrOf(SInt)
					found = true
				}
				for _, hp := range e.pkgs {
					if len(parts) >= 2 && hp.Types.Name() == parts[0] {
						if o := hp.Types.Scope().Lookup(parts[1]); o != nil {
							if stt, skey := structOf(o.Type()); stt != nil {
								for i := 0; i < stt.NumFields(); i++ {
									if len(parts) == 2 || stt.Field(i).Name() == parts[2] {
										e.fieldKeys(stt, skey, i, out.keys)
										found = true
									}
								}
							}
						}
					}
				}
			}
			if !found {
				fmt.Fprintf(os.Stderr, "govc: modifies entry %q of %s matches no heap location\n", m, ct.Key)
			}
		}
	}
}

var knownHeapKeys = func() map[string]Sort {
	m := map[string]Sort{kBufLen: arrOf(SInt), kBufOwned: arrOf(SBool), kConnCode: arrOf(SInt)}
	for k, s := range hdrKeys() {
		m[k] = s
	}
	return m
}()

func (e *Engine) callFrame(ci ssa.CallInstruction) frameSet {
	for _, callee := range e.callees(ci) {
		e.frameOf(callee)
	}
	return e.callFrameShallow(ci)
}

func (e *Engine) funcValueFrame(sig *types.Signature) frameSet {
	out := frameSet{keys: map[string]Sort{}}
	found := false
	for _, f := range e.addrTaken {
		if types.Identical(f.Signature, sig) || sameParams(f.Signature, sig) {
			found = true
			fs := e.frameOf(f)
			if fs.all {
				out.all = true
			}
			for k, s := range fs.keys {
				out.keys[k] = s
			}
		}
	}
	_ = found
	return out
}

func sameParams(a, b *types.Signature) bool {
	if a.Params().Len() != b.Params().Len() || a.Results().Len() != b.Results().Len() {
		return false
	}
	for i := 0; i < a.Params().Len(); i++ {
		if !types.Identical(a.Params().At(i).Type(), b.Params().At(i).Type()) {
			return false
		}
	}
	for i := 0; i < a.Results().Len(); i++ {
		if !types.Identical(a.Results().At(i).Type(), b.Results().At(i).Type()) {
			return false
		}
	}
	return true
}

// storeTarget classifies the address written by a Store: a local cell, or heap keys.
func (e *Engine) storeTarget(addr ssa.Value, cells map[*ssa.Alloc]bool, keys map[string]Sort) {
	switch a := addr.(type) {
	case *ssa.Alloc:
		et := a.Type().(*types.Pointer).Elem()
		if kindOf(et) == KStruct {
			// a struct object allocated by this very function: invisible to callers
		} else {
			cells[a] = true
		}
	case *ssa.FieldAddr:
		stt, key := structOf(a.X.Type())
		if stt == nil {
			return
		}
		if rootAlloc(a.X) {
			return // field of an object allocated by this function
		}
		e.fieldKeys(stt, key, a.Field, keys)
	case *ssa.IndexAddr:
		switch xt := a.X.Type().Underlying().(type) {
		case *types.Slice:
			if kindOf(xt.Elem()) == KStruct {
				e.structKeys(xt.Elem(), keys)
			} else if kindOf(xt.Elem()) == KIface {
				keys["elems|iface#t"] = arrOf(arrOf(SInt))
				keys["elems|iface#v"] = arrOf(arrOf(SInt))
			} else if k, s, ok := elemsKey(xt.Elem()); ok {
				keys[k] = s
			}
		case *types.Pointer:
			e.storeTarget(a.X, cells, keys)
		}
	case *ssa.Global:
		name := "glob|" + a.Pkg.Pkg.Name() + "." + a.Name()
		et := a.Type().(*types.Pointer).Elem()
		if kindOf(et) == KIface {
			keys[name+"#t"] = SInt
			keys[name+"#v"] = SInt
		} else if s, ok := scalarSort(et); ok {
			keys[name] = s
		}
	case *ssa.UnOp, *ssa.Parameter, *ssa.Call, *ssa.Phi, *ssa.Extract:
		// store through a pointer value: *p = v
		pt, ok := a.Type().Underlying().(*types.Pointer)
		if !ok {
			return
		}
		if kindOf(pt.Elem()) == KStruct {
			e.structKeys(pt.Elem(), keys)
		}
	}
}

func (e *Engine) fieldKeys(stt *types.Struct, skey string, i int, keys map[string]Sort) {
	ft := stt.Field(i).Type()
	k := fieldKey(skey, stt, i)
	switch kindOf(ft) {
	case KStruct:
		e.structKeys(ft, keys)
	case KIface:
		keys[k+"#t"] = arrOf(SInt)
		keys[k+"#v"] = arrOf(SInt)
	case KSlice:
		for _, c := range []string{"#b", "#o", "#l", "#c"} {
			keys[k+c] = arrOf(SInt)
		}
	default:
		if s, ok := scalarSort(ft); ok {
			keys[k] = arrOf(s)
		}
	}
}

func (e *Engine) structKeys(t types.Type, keys map[string]Sort) {
	stt, skey := structOf(t)
	if stt == nil {
		return
	}
	for i := 0; i < stt.NumFields(); i++ {
		e.fieldKeys(stt, skey, i, keys)
	}
}

// storeTargetLoop: like storeTarget, but writes to objects allocated by the function itself count
// (a loop may update a struct local declared before it).
func (e *Engine) storeTargetLoop(addr ssa.Value, cells map[*ssa.Alloc]bool, keys map[string]Sort) {
	switch a := addr.(type) {
	case *ssa.Alloc:
		et := a.Type().(*types.Pointer).Elem()
		if kindOf(et) == KStruct {
			e.structKeys(et, keys)
			return
		}
	case *ssa.FieldAddr:
		if stt, key := structOf(a.X.Type()); stt != nil && rootAlloc(a.X) {
			e.fieldKeys(stt, key, a.Field, keys)
			return
		}
	}
	e.storeTarget(addr, cells, keys)
}

// rootAlloc: is the pointer (syntactically) the address of a struct allocated in this function?
func rootAlloc(v ssa.Value) bool {
	switch a := v.(type) {
	case *ssa.Alloc:
		return kindOf(a.Type().(*types.Pointer).Elem()) == KStruct
	case *ssa.FieldAddr:
		return rootAlloc(a.X)
	}
	return false
}

// addrRoots: if v is (derived from) the address of a local cell, record the cell.
func (e *Engine) addrRoots(v ssa.Value, cells map[*ssa.Alloc]bool) {
	switch a := v.(type) {
	case *ssa.Alloc:
		if kindOf(a.Type().(*types.Pointer).Elem()) != KStruct {
			cells[a] = true
		}
	case *ssa.IndexAddr:
		e.addrRoots(a.X, cells)
	case *ssa.Slice:
		e.addrRoots(a.X, cells)
	case *ssa.MakeClosure:
		for _, b := range a.Bindings {
			e.addrRoots(b, cells)
		}
	}
}

var _ = strings.HasPrefix

// ifaceKey names an interface method: "(pkg/path.Iface).Method", with the short package name for
// the packages under verification.
func (e *Engine) ifaceKey(t types.Type, method string) string {
	s := types.TypeString(t, func(p *types.Package) string {
		if e.homes[p] {
			return p.Name()
		}
		return p.Path()
	})
	return "(" + s + ")." + method
}

// staticFieldKeys resolves a modifies path such as "w.rw.endWritten" against the parameter types.
func (e *Engine) staticFieldKeys(f *ssa.Function, path string, keys map[string]Sort) bool {
	path = strings.TrimSpace(path)
	if strings.HasPrefix(path, "owned(") {
		keys[kBufOwned] = arrOf(SBool)
		return true
	}
	if strings.HasPrefix(path, "blen(") {
		keys[kBufLen] = arrOf(SInt)
		return true
	}
	if strings.HasPrefix(path, "mapobj(") {
		// resolve the parameter's (or field's) map type statically
		inner := strings.TrimSuffix(strings.TrimPrefix(path, "mapobj("), ")")
		parts := strings.Split(inner, ".")
		var cur types.Type
		for _, p := range f.Params {
			if p.Name() == parts[0] {
				cur = p.Type()
			}
		}
		for _, name := range parts[1:] {
			if cur == nil {
				break
			}
			obj, _, _ := types.LookupFieldOrMethod(cur, true, f.Pkg.Pkg, name)
			if fv, ok := obj.(*types.Var); ok {
				cur = fv.Type()
			} else {
				cur = nil
			}
		}
		if cur == nil || kindOf(cur) != KMap {
			return false
		}
		for k, s := range e.mapKeys(cur) {
			keys[k] = s
		}
		return true
	}
	parts := strings.Split(path, ".")
	if len(parts) < 2 {
		return false
	}
	var cur types.Type
	for _, p := range f.Params {
		if p.Name() == parts[0] {
			cur = p.Type()
		}
	}
	if cur == nil {
		return false
	}
	for n, name := range parts[1:] {
		obj, index, _ := types.LookupFieldOrMethod(cur, true, f.Pkg.Pkg, name)
		fv, ok := obj.(*types.Var)
		if !ok || !fv.IsField() {
			return false
		}
		for k, i := range index {
			stt, skey := structOf(cur)
			if stt == nil {
				return false
			}
			if n == len(parts)-2 && k == len(index)-1 {
				e.fieldKeys(stt, skey, i, keys)
				return true
			}
			cur = stt.Field(i).Type()
		}
	}
	return false
}

// onlyRefImplementers: interface types of the package whose values always box a pointer or an
// empty struct (so the payload is a reference, never a negative integer).
func (e *Engine) onlyRefImplementers(t types.Type) bool {
	n, ok := t.(*types.Named)
	if !ok {
		return false
	}
	switch n.Obj().Pkg() {
	case nil:
		return false
	}
	p := n.Obj().Pkg().Path()
	return e.homes[n.Obj().Pkg()] || p == "io" || p == "net/http"
}

func (e *Engine) exportedHomeIface(t types.Type) bool {
	n, ok := t.(*types.Named)
	return ok && n.Obj().Pkg() != nil && e.homes[n.Obj().Pkg()] && n.Obj().Exported()
}

// appendKeys: the element array key an append() call writes (at a fresh backing object).
func (e *Engine) appendKeys(ci ssa.CallInstruction) map[string]Sort {
	out := map[string]Sort{}
	c := ci.Common()
	if st, ok := c.Args[0].Type().Underlying().(*types.Slice); ok {
		if k, s, ok := elemsKey(st.Elem()); ok {
			out[k] = s
		}
	}
	return out
}
