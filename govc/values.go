package main

// Executor-level values and the symbolic state (local cells + heap arrays + ghost variables).

import (
	"fmt"
	"go/types"
	"math/big"
	"net/textproto"
	"strings"

	"golang.org/x/tools/go/ssa"
)

type bigInt = big.Int

var one = big.NewInt(1)

func canonicalMIMEHeaderKey(s string) string { return textproto.CanonicalMIMEHeaderKey(s) }

type Value interface{}

type VTerm struct{ T Term } // bool, int, float, string, ref, map, func, chan, scalar arrays

type Backing struct {
	Heap bool   // elements live in the elems heap under Ref
	Ref  Term   // Heap: backing array id
	Loc  *VAddr // !Heap: an array stored at an address (local cell or struct field)
	// Imm: set when the slice was read from a field of an `immutable` type: the backing array it
	// had at that point (element writes to that array are writes to configuration), and the type
	Imm     Term
	ImmType string
}

type VSlice struct {
	Back          Backing
	Off, Len, Cap Term
}

type VIface struct{ Tag, Val Term }

type VStruct struct{ F []Value }

type AddrKind int

const (
	ALocal AddrKind = iota
	AField          // leaf field of a heap object
	AElem           // element of an array held at Base, or of a slice backing
	AGlobal
	AOpaque
)

type VAddr struct {
	Kind   AddrKind
	Cell   *ssa.Alloc
	Obj    Term // AField: object ref
	SKey   string
	St     *types.Struct
	Idx    int
	Base   *VAddr   // AElem over an array location
	Back   *Backing // AElem over a slice backing
	Index  Term
	Glob   *ssa.Global
	ElemT  types.Type // type of the pointee
	Opaque Term
}

type VFunc struct {
	Fn   *ssa.Function
	Bind []Value
	T    Term
}

// ---------------------------------------------------------------------------------------------

type State struct {
	pc     Term
	cells  map[*ssa.Alloc]Value
	heap   map[string]Term
	epoch  int
	defers map[*ssa.Defer]deferRec
	dead   bool
}

type deferRec struct {
	Active Term
	Args   []Value
	Fn     Value
}

func (s *State) clone() *State {
	n := &State{pc: s.pc, epoch: s.epoch, dead: s.dead,
		cells: make(map[*ssa.Alloc]Value, len(s.cells)), heap: make(map[string]Term, len(s.heap)),
		defers: make(map[*ssa.Defer]deferRec, len(s.defers))}
	for k, v := range s.cells {
		n.cells[k] = v
	}
	for k, v := range s.heap {
		n.heap[k] = v
	}
	for k, v := range s.defers {
		n.defers[k] = v
	}
	return n
}

// heapSorts remembers the sort of every heap key ever used (per VC).
type heapInfo struct {
	sort Sort
}

func (x *Exec) heapGet(st *State, key string, sort Sort) Term {
	if t, ok := st.heap[key]; ok {
		return t
	}
	x.heapSorts[key] = sort
	name := fmt.Sprintf("H|%s@%d", key, st.epoch)
	t := x.vc.Const(name, sort)
	st.heap[key] = t
	return t
}

func (x *Exec) heapSet(st *State, key string, v Term) {
	x.heapSorts[key] = v.Sort
	st.heap[key] = v
	if !x.freshStore {
		x.written[key] = true
	}
}

// havocKey replaces a heap key's content with a fresh value.
func (x *Exec) havocKey(st *State, key string, sort Sort) {
	x.heapSorts[key] = sort
	st.heap[key] = x.vc.Fresh("H|"+key, sort)
}

// havocAll forgets everything about the heap (used for calls that may re-enter arbitrary code).
func (x *Exec) havocAll(st *State) {
	x.epochCtr++
	st.epoch = x.epochCtr
	// the call counters of this verification are ghost state no callee can touch
	keep := map[string]Term{}
	for k, v := range st.heap {
		if strings.HasPrefix(k, "cnt|") {
			keep[k] = v
		}
	}
	st.heap = keep
}

// ---------------------------------------------------------------------------------------------
// shapes

func (x *Exec) rangeFact(t Term, typ types.Type) Term {
	if kindOf(typ) != KInt {
		return TTrue
	}
	lo, hi, _, _ := intRange(typ)
	return And(Le(lo, t), Le(t, hi))
}

// fresh builds a fresh symbolic value of the given Go type.
func (x *Exec) fresh(typ types.Type, hint string) Value {
	vc := x.vc
	switch kindOf(typ) {
	case KBool:
		return VTerm{vc.Fresh(hint, SBool)}
	case KInt:
		t := vc.Fresh(hint, SInt)
		vc.Assert(x.rangeFact(t, typ))
		return VTerm{t}
	case KFloat:
		return VTerm{vc.Fresh(hint, SFP)}
	case KString:
		t := vc.Fresh(hint, SStr)
		vc.strFacts(t)
		return VTerm{t}
	case KRef, KMap:
		t := vc.Fresh(hint, SInt)
		vc.Assert(Ge(t, IntLit(0))) // pre-existing objects; allocations of this function are negative
		return VTerm{t}
	case KFunc, KChan, KOther:
		return VTerm{vc.Fresh(hint, SInt)}
	case KAddr:
		return VAddr{Kind: AOpaque, Opaque: vc.Fresh(hint, SInt), ElemT: typ.Underlying().(*types.Pointer).Elem()}
	case KIface:
		tag := vc.Fresh(hint+".t", SInt)
		vc.Assert(Ge(tag, IntLit(0)))
		val := vc.Fresh(hint+".v", SInt)
		if typ.String() == "error" {
			vc.Assert(Ge(val, IntLit(0)))
		}
		x.ifaceTyping(tag, typ)
		return VIface{tag, val}
	case KSlice:
		b := vc.Fresh(hint+".b", SInt)
		o := vc.Fresh(hint+".o", SInt)
		l := vc.Fresh(hint+".l", SInt)
		c := vc.Fresh(hint+".c", SInt)
		vc.Assert(And(Ge(o, IntLit(0)), Ge(l, IntLit(0)), Le(l, c), Le(c, BigLit(pow2(48))), Le(o, BigLit(pow2(48)))))
		return VSlice{Backing{Heap: true, Ref: b}, o, l, c}
	case KArray:
		s, _ := scalarSort(typ)
		t := vc.Fresh(hint, s)
		if at := typ.Underlying().(*types.Array); kindOf(at.Elem()) == KInt && at.Len() <= 64 && elemSort(s) == SInt {
			for i := int64(0); i < at.Len(); i++ {
				vc.Assert(x.rangeFact(Select(t, IntLit(i)), at.Elem()))
			}
		}
		return VTerm{t}
	case KStruct:
		st := typ.Underlying().(*types.Struct)
		v := VStruct{}
		for i := 0; i < st.NumFields(); i++ {
			v.F = append(v.F, x.fresh(st.Field(i).Type(), hint+"."+st.Field(i).Name()))
		}
		return v
	case KTuple:
		tp := typ.(*types.Tuple)
		v := VStruct{}
		for i := 0; i < tp.Len(); i++ {
			v.F = append(v.F, x.fresh(tp.At(i).Type(), fmt.Sprintf("%s.%d", hint, i)))
		}
		return v
	}
	return VTerm{vc.Fresh(hint, SInt)}
}

func (x *Exec) zero(typ types.Type) Value {
	switch kindOf(typ) {
	case KBool:
		return VTerm{TFalse}
	case KInt, KRef, KMap, KFunc, KChan, KOther:
		return VTerm{IntLit(0)}
	case KFloat:
		return VTerm{Term{"(_ +zero 11 53)", SFP}}
	case KString:
		return VTerm{Term{"sEmpty", SStr}}
	case KAddr:
		return VAddr{Kind: AOpaque, Opaque: IntLit(0), ElemT: typ.Underlying().(*types.Pointer).Elem()}
	case KIface:
		return VIface{IntLit(0), IntLit(0)}
	case KSlice:
		return VSlice{Backing{Heap: true, Ref: IntLit(0)}, IntLit(0), IntLit(0), IntLit(0)}
	case KArray:
		s, _ := scalarSort(typ)
		if strings.HasPrefix(string(s), "(Array") {
			es := elemSort(s)
			var z string
			switch es {
			case SBool:
				z = "false"
			case SStr:
				z = "sEmpty"
			case SFP:
				z = "(_ +zero 11 53)"
			default:
				z = "0"
			}
			return VTerm{Term{fmt.Sprintf("((as const %s) %s)", s, z), s}}
		}
		return VTerm{x.vc.Fresh("arr", SInt)}
	case KStruct:
		st := typ.Underlying().(*types.Struct)
		v := VStruct{}
		for i := 0; i < st.NumFields(); i++ {
			v.F = append(v.F, x.zero(st.Field(i).Type()))
		}
		return v
	case KTuple:
		tp := typ.(*types.Tuple)
		v := VStruct{}
		for i := 0; i < tp.Len(); i++ {
			v.F = append(v.F, x.zero(tp.At(i).Type()))
		}
		return v
	}
	return VTerm{IntLit(0)}
}

// flatten lists the SMT components of a value; ok=false if the value has executor-only parts.
func flatten(v Value) ([]Term, bool) {
	switch v := v.(type) {
	case VTerm:
		return []Term{v.T}, true
	case VIface:
		return []Term{v.Tag, v.Val}, true
	case VSlice:
		if !v.Back.Heap {
			return nil, false
		}
		return []Term{v.Back.Ref, v.Off, v.Len, v.Cap}, true
	case VStruct:
		var out []Term
		for _, f := range v.F {
			ts, ok := flatten(f)
			if !ok {
				return nil, false
			}
			out = append(out, ts...)
		}
		return out, true
	case VFunc:
		if v.T.Valid() {
			return []Term{v.T}, true
		}
		return nil, false
	case VAddr:
		if v.Kind == AOpaque {
			return []Term{v.Opaque}, true
		}
		return nil, false
	case nil:
		return nil, false
	}
	return nil, false
}

// rebuild makes a value with the shape of v from the terms ts (consumed left to right).
func rebuild(v Value, ts *[]Term) Value {
	take := func() Term { t := (*ts)[0]; *ts = (*ts)[1:]; return t }
	switch v := v.(type) {
	case VTerm:
		return VTerm{take()}
	case VIface:
		a := take()
		b := take()
		return VIface{a, b}
	case VSlice:
		r := take()
		o := take()
		l := take()
		c := take()
		return VSlice{Backing{Heap: true, Ref: r, Imm: v.Back.Imm, ImmType: v.Back.ImmType}, o, l, c}
	case VStruct:
		n := VStruct{}
		for _, f := range v.F {
			n.F = append(n.F, rebuild(f, ts))
		}
		return n
	case VFunc:
		return VFunc{T: take()}
	case VAddr:
		return VAddr{Kind: AOpaque, Opaque: take(), ElemT: v.ElemT}
	}
	return v
}

func sameAddr(a, b VAddr) bool {
	if a.Kind != b.Kind {
		return false
	}
	switch a.Kind {
	case ALocal:
		return a.Cell == b.Cell
	case AField:
		return a.Obj.S == b.Obj.S && a.SKey == b.SKey && a.Idx == b.Idx
	case AGlobal:
		return a.Glob == b.Glob
	case AOpaque:
		return a.Opaque.S == b.Opaque.S
	case AElem:
		if a.Index.S != b.Index.S {
			return false
		}
		if (a.Base == nil) != (b.Base == nil) {
			return false
		}
		if a.Base != nil {
			return sameAddr(*a.Base, *b.Base)
		}
		return a.Back.Heap == b.Back.Heap && a.Back.Ref.S == b.Back.Ref.S
	}
	return false
}

func sameValue(a, b Value) bool {
	switch av := a.(type) {
	case VAddr:
		bv, ok := b.(VAddr)
		return ok && sameAddr(av, bv)
	case VFunc:
		bv, ok := b.(VFunc)
		return ok && av.Fn == bv.Fn && av.T.S == bv.T.S && len(av.Bind) == len(bv.Bind)
	case VSlice:
		bv, ok := b.(VSlice)
		if !ok {
			return false
		}
		if !av.Back.Heap || !bv.Back.Heap {
			if av.Back.Heap != bv.Back.Heap {
				return false
			}
			return sameAddr(*av.Back.Loc, *bv.Back.Loc) && av.Off.S == bv.Off.S && av.Len.S == bv.Len.S && av.Cap.S == bv.Cap.S
		}
	}
	fa, ok1 := flatten(a)
	fb, ok2 := flatten(b)
	if !ok1 || !ok2 || len(fa) != len(fb) {
		return false
	}
	for i := range fa {
		if fa[i].S != fb[i].S {
			return false
		}
	}
	return true
}

// ifaceTyping: type soundness of interface values: the dynamic type implements the static one.
func (x *Exec) ifaceTyping(tag Term, typ types.Type) {
	it, ok := typ.Underlying().(*types.Interface)
	if !ok || it.NumMethods() == 0 || typ.String() == "error" {
		return
	}
	if _, named := typ.(*types.Named); !named {
		return
	}
	id := x.implementsFacts(typ)
	x.fact("ityp:"+tag.S+":"+typeKey(typ), Or(Eq(tag, IntLit(0)), app(SBool, "implements", tag, IntLit(id))))
}
