package main

// Assumed (trusted) models of library functions. Each model is listed in the evidence under
// trusted_base when used. Keys are ssa.Function.String() for static callees and
// "(<interface type>).<method>" for interface calls.

import (
	"fmt"
	"go/token"
	"go/types"

	"golang.org/x/tools/go/ssa"
	"strings"
)

type modelFn func(x *Exec, fr *Frame, st *State, args []Value, pos token.Pos, rt types.Type) (Value, bool)

var models = map[string]modelFn{}

// libFrames: heap keys written by library functions / interface methods ("*" = everything).
var libFrames = map[string]map[string]Sort{}

const (
	kBufLen   = "buf|len"
	kBufOwned = "buf|owned"
	kBufCap   = "buf|cap"
	kConnCode = "connerr|code"
	kHdr      = "map|map[string][]string"
)

func regModel(name string, f modelFn) {
	models[name] = func(x *Exec, fr *Frame, st *State, args []Value, pos token.Pos, rt types.Type) (Value, bool) {
		x.usedModels[name] = true
		return f(x, fr, st, args, pos, rt)
	}
}

func tOf(v Value) Term {
	switch vv := v.(type) {
	case VTerm:
		return vv.T
	case VAddr:
		if vv.Kind == AOpaque {
			return vv.Opaque
		}
	}
	return Term{}
}

func nilErr() VIface { return VIface{IntLit(0), IntLit(0)} }

func (x *Exec) freshErr(hint string) VIface {
	return x.fresh(types.Universe.Lookup("error").Type(), hint).(VIface)
}

func (x *Exec) nonNilErr(st *State, hint string) VIface {
	e := x.freshErr(hint)
	x.vc.Assert(Gt(e.Tag, IntLit(0)))
	return e
}

// ---- strings as digits

func (x *Exec) decval(s Term) Term {
	t := app(SInt, "sDec", s)
	key := "dec:" + s.S
	if x.vc.declared[key] {
		return t
	}
	x.vc.declared[key] = true
	n := sLen(s)
	acc := IntLit(0)
	for k := 0; k < 19; k++ {
		kk := IntLit(int64(k))
		acc = x.vc.Name(Ite(Lt(kk, n), Add(Mul(acc, IntLit(10)), Sub(x.strAt(s, kk), IntLit(48))), acc), "dec")
	}
	x.vc.Assert(Implies(Le(n, IntLit(19)), Eq(t, acc)))
	x.vc.Assert(Ge(t, IntLit(0)))
	return t
}

func (x *Exec) isDigits(s Term) Term {
	f := x.vc.Fun("sDigits", []Sort{SStr}, SBool)
	w := x.vc.Fun("sBadAt", []Sort{SStr}, SInt)
	t := app(SBool, f, s)
	key := "digits:" + s.S
	if x.vc.declared[key] {
		return t
	}
	x.vc.declared[key] = true
	n := sLen(s)
	x.vc.ctr++
	q := Term{fmt.Sprintf("i!q%d", x.vc.ctr), SInt}
	dig := func(i Term) Term { c := x.strAt(s, i); return And(Le(IntLit(48), c), Le(c, IntLit(57))) }
	x.vc.Assert(Implies(t, Term{fmt.Sprintf("(forall ((%s Int)) (! %s :pattern (%s)))", q.S, Implies(And(Le(IntLit(0), q), Lt(q, n)), dig(q)).S, x.strAt(s, q).S), SBool}))
	bad := app(SInt, w, s)
	x.vc.Assert(Implies(Not(t), And(Le(IntLit(0), bad), Lt(bad, n), Not(dig(bad)))))
	// bounded unrolling helps the solvers for the short strings that matter
	for k := 0; k < 12; k++ {
		kk := IntLit(int64(k))
		x.vc.Assert(Implies(And(t, Lt(kk, n)), dig(kk)))
	}
	return t
}

func ndigits(v Term) Term {
	r := IntLit(19)
	p := new(bigInt).Exp(bigTen, bigOf(18), nil)
	for k := 18; k >= 1; k-- {
		r = Ite(Lt(v, BigLit(p)), IntLit(int64(k)), r)
		p = new(bigInt).Div(p, bigTen)
	}
	return r
}

var bigTen = bigOf(10)

func bigOf(i int64) *bigInt { return new(bigInt).SetInt64(i) }

// parseDec models strconv.ParseInt/ParseUint/Atoi for base 10.
func (x *Exec) parseDec(st *State, s Term, signed bool, bits int) (val Term, err VIface) {
	n := sLen(s)
	var body Term
	var neg Term = TFalse
	if signed {
		c0 := x.strAt(s, IntLit(0))
		neg = x.vc.Name(And(Gt(n, IntLit(0)), Eq(c0, IntLit('-'))), "neg")
		plus := And(Gt(n, IntLit(0)), Eq(c0, IntLit('+')))
		hasSign := x.vc.Name(Or(neg, plus), "sign")
		sub := x.strSub(s, IntLit(1), n)
		body = x.vc.Fresh("digits", SStr)
		x.vc.strFacts(body)
		x.vc.Assert(Eq(body, Ite(hasSign, sub, s)))
	} else {
		body = s
	}
	bl := sLen(body)
	syntaxOK := x.vc.Name(And(Gt(bl, IntLit(0)), x.isDigits(body)), "synok")
	mag := x.decval(body)
	v := x.vc.Name(Ite(neg, Neg(mag), mag), "pval")
	var lo, hi Term
	if signed {
		lo, hi = BigLit(new(bigInt).Neg(pow2(bits-1))), BigLit(new(bigInt).Sub(pow2(bits-1), one))
	} else {
		lo, hi = IntLit(0), BigLit(new(bigInt).Sub(pow2(bits), one))
	}
	longIn := x.vc.Fresh("longInRange", SBool)
	inRange := x.vc.Name(Ite(Le(bl, IntLit(19)), And(Le(lo, v), Le(v, hi)), longIn), "inrng")
	e := x.freshErr("parse.err")
	res := x.vc.Fresh("parse.v", SInt)
	x.vc.Assert(And(Le(lo, res), Le(res, hi)))
	x.vc.Assert(Eq(Eq(e.Tag, IntLit(0)), And(syntaxOK, inRange)))
	x.vc.Assert(Implies(Eq(e.Tag, IntLit(0)), Implies(Le(bl, IntLit(19)), Eq(res, v))))
	x.vc.Assert(Implies(And(Eq(e.Tag, IntLit(0)), Not(neg)), Ge(res, IntLit(0))))
	x.vc.Assert(Implies(Neq(e.Tag, IntLit(0)), Or(Eq(res, IntLit(0)), Eq(res, lo), Eq(res, hi))))
	return res, e
}

func (x *Exec) formatDec(v Term) Term {
	r := x.vc.Fresh("fmt", SStr)
	x.vc.strFacts(r)
	n := sLen(r)
	pos := Ge(v, IntLit(0))
	x.vc.Assert(Implies(pos, And(Eq(n, ndigits(v)), x.isDigits(r), Eq(x.decval(r), v), Implies(Gt(v, IntLit(0)), Neq(x.strAt(r, IntLit(0)), IntLit(48))))))
	sub := x.strSub(r, IntLit(1), n)
	x.vc.Assert(Implies(Not(pos), And(Eq(x.strAt(r, IntLit(0)), IntLit('-')), Eq(n, Add(IntLit(1), ndigits(Neg(v)))), x.isDigits(sub), Eq(x.decval(sub), Neg(v)))))
	return r
}

// ---- errors

func (x *Exec) errIs(a, b VIface) Term {
	t := app(SBool, "errIs", a.Tag, a.Val, b.Tag, b.Val)
	key := "errIs:" + t.S
	if !x.vc.declared[key] {
		x.vc.declared[key] = true
		x.vc.Assert(Implies(And(Eq(a.Tag, b.Tag), Eq(a.Val, b.Val), Neq(a.Tag, IntLit(0))), t))
		x.vc.Assert(Implies(And(Eq(a.Tag, IntLit(0)), Neq(b.Tag, IntLit(0))), Not(t)))
	}
	return t
}

// errIsAt is errIs plus, for an *httpError receiver, one unfolding of errors.Is through
// (*httpError).Unwrap: httpError has no Is method and its err field is only ever written by the
// composite literal that allocates it (checked by httpErrImmutable), so
// errors.Is(e, t) == (e == t || errors.Is(e.err, t)).
func (x *Exec) errIsAt(st *State, a, b VIface) Term {
	t := x.errIs(a, b)
	if st == nil || !x.eng.httpErrImmutable() {
		return t
	}
	stt, skey := structOf(x.eng.namedType(x.eng.home.Path(), "httpError"))
	for i := 0; i < stt.NumFields(); i++ {
		if stt.Field(i).Name() != "err" {
			continue
		}
		inner, ok := x.loadField(st, a.Val, stt, skey, i).(VIface)
		if !ok {
			return t
		}
		it := x.errIs(inner, b)
		key := "errIsH:" + t.S + "|" + it.S
		if !x.vc.declared[key] {
			x.vc.declared[key] = true
			same := And(Eq(a.Tag, b.Tag), Eq(a.Val, b.Val))
			x.vc.Assert(Implies(Eq(a.Tag, IntLit(x.httpErrTag())), Eq(t, Or(same, it))))
		}
	}
	return t
}

func (e *Engine) httpErrImmutable() bool {
	e.httpErrOnce.Do(func() {
		e.httpErrImm = true
		for _, fn := range e.funcs {
			for _, b := range fn.Blocks {
				for _, in := range b.Instrs {
					st, ok := in.(*ssa.Store)
					if !ok {
						continue
					}
					fa, ok := st.Addr.(*ssa.FieldAddr)
					if !ok {
						continue
					}
					pt, ok := fa.X.Type().Underlying().(*types.Pointer)
					if !ok {
						continue
					}
					nm, ok := pt.Elem().(*types.Named)
					if !ok || nm.Obj().Name() != "httpError" || nm.Obj().Pkg() != e.home {
						continue
					}
					stt := nm.Underlying().(*types.Struct)
					if stt.Field(fa.Field).Name() != "err" {
						continue
					}
					if _, isAlloc := fa.X.(*ssa.Alloc); !isAlloc {
						e.httpErrImm = false
					}
				}
			}
		}
	})
	return e.httpErrImm
}

func (x *Exec) connErrTag() int64 {
	return x.eng.typeTag(types.NewPointer(x.eng.namedType("connectrpc.com/connect", "Error")))
}

// connRef: the *connect.Error found by errors.As in err's chain (0 if none).
func (x *Exec) connRef(a VIface) Term {
	f := x.vc.Fun("asConn", []Sort{SInt, SInt}, SInt)
	t := app(SInt, f, a.Tag, a.Val)
	key := "asConn:" + t.S
	if !x.vc.declared[key] {
		x.vc.declared[key] = true
		x.vc.Assert(Implies(Eq(a.Tag, IntLit(x.connErrTag())), Eq(t, a.Val)))
		x.vc.Assert(Implies(Eq(a.Tag, IntLit(0)), Eq(t, IntLit(0))))
	}
	return t
}
func (x *Exec) isConnErr(a VIface) Term { return Neq(x.connRef(a), IntLit(0)) }
func (x *Exec) connCode(st *State, ref Term) Term {
	return Select(x.heapGet(st, kConnCode, arrOf(SInt)), ref)
}
func (x *Exec) errCode(st *State, a VIface) Term { return x.connCode(st, x.connRef(a)) }

func (x *Exec) httpErrTag() int64 {
	return x.eng.typeTag(types.NewPointer(x.eng.namedType(x.eng.home.Path(), "httpError")))
}
func (x *Exec) httpRef(a VIface) Term {
	f := x.vc.Fun("asHTTP", []Sort{SInt, SInt}, SInt)
	t := app(SInt, f, a.Tag, a.Val)
	key := "asHTTP:" + t.S
	if !x.vc.declared[key] {
		x.vc.declared[key] = true
		x.vc.Assert(Implies(Eq(a.Tag, IntLit(x.httpErrTag())), Eq(t, a.Val)))
		x.vc.Assert(Implies(Eq(a.Tag, IntLit(0)), Eq(t, IntLit(0))))
	}
	return t
}
func (x *Exec) httpErrCode(st *State, a VIface) Term {
	stt, key := structOf(x.eng.namedType(x.eng.home.Path(), "httpError"))
	for i := 0; i < stt.NumFields(); i++ {
		if stt.Field(i).Name() == "code" {
			return tOf(x.loadField(st, x.httpRef(a), stt, key, i))
		}
	}
	return IntLit(0)
}

func (e *Engine) namedPtr(pkgPath, name string) types.Type {
	return types.NewPointer(e.namedType(pkgPath, name))
}

func (e *Engine) namedType(pkgPath, name string) types.Type {
	for _, p := range e.allPkgs {
		if p.Path() == pkgPath {
			if o := p.Scope().Lookup(name); o != nil {
				return o.Type()
			}
		}
	}
	return types.Typ[types.Int]
}

// ---- bytes.Buffer abstract state

func (x *Exec) bufLen(st *State, b Term) Term {
	t := Select(x.heapGet(st, kBufLen, arrOf(SInt)), b)
	// lengths are never negative (fact about the abstract buffer state, not about the path)
	if strings.HasPrefix(t.S, "(select |H!") {
		x.fact("blen:"+t.S, And(Ge(t, IntLit(0)), Le(t, BigLit(pow2(48)))))
	}
	return t
}
func (x *Exec) setBufLen(st *State, b, n Term) {
	x.heapSet(st, kBufLen, Store(x.heapGet(st, kBufLen, arrOf(SInt)), b, n))
}
func (x *Exec) bufOwned(st *State, b Term) Term {
	return Select(x.heapGet(st, kBufOwned, arrOf(SBool)), b)
}
func (x *Exec) setBufOwned(st *State, b Term, v Term) {
	x.heapSet(st, kBufOwned, Store(x.heapGet(st, kBufOwned, arrOf(SBool)), b, v))
}

// ---- http.Header on the map model

func (x *Exec) hdrShape() mapShape {
	return mapShape{key: kHdr, kSort: SStr, vKind: KSlice, vType: types.NewSlice(types.Typ[types.String])}
}
func (x *Exec) canon(k Term) Term {
	if _, ok := x.litValue(k); ok {
		return app(SStr, "sCanon", k) // asserted equal to the canonical literal at creation
	}
	return app(SStr, "sCanon", k)
}
func (x *Exec) litValue(k Term) (string, bool) {
	for s, t := range x.vc.strLits {
		if t.S == k.S {
			return s, true
		}
	}
	return "", false
}
func (x *Exec) hdrHasRaw(st *State, h, ck Term) Term {
	ms := x.hdrShape()
	return And(Neq(h, IntLit(0)), Select(x.mapDom(st, ms, h), ck))
}
func (x *Exec) hdrHas(st *State, h, k Term) Term { return x.hdrHasRaw(st, h, x.canon(k)) }
func (x *Exec) hdrCount(st *State, h, k Term) Term {
	ms := x.hdrShape()
	ck := x.canon(k)
	v := x.mapGetVal(st, ms, h, ck).(VSlice)
	return Ite(x.hdrHasRaw(st, h, ck), v.Len, IntLit(0))
}
func (x *Exec) hdrGetRaw(st *State, h, ck Term) Term {
	ms := x.hdrShape()
	v := x.mapGetVal(st, ms, h, ck).(VSlice)
	first := Select(Select(x.heapGet(st, "elems|Str", arrOf(arrOf(SStr))), v.Back.Ref), v.Off)
	t := x.vc.Name(Ite(And(x.hdrHasRaw(st, h, ck), Gt(v.Len, IntLit(0))), first, Term{"sEmpty", SStr}), "hget")
	x.vc.strFacts(t)
	return t
}
func (x *Exec) hdrGet(st *State, h, k Term) Term { return x.hdrGetRaw(st, h, x.canon(k)) }
func (x *Exec) hdrEq(s1, s2 *State, h1, h2 Term) Term {
	ms := x.hdrShape()
	cs := []Term{Eq(x.mapDom(s1, ms, h1), x.mapDom(s2, ms, h2))}
	for _, c := range []string{"#b", "#o", "#l"} {
		a := Select(x.heapGet(s1, kHdr+c, arrOf(arrKV(SStr, SInt))), h1)
		b := Select(x.heapGet(s2, kHdr+c, arrOf(arrKV(SStr, SInt))), h2)
		cs = append(cs, Eq(a, b))
	}
	return And(cs...)
}

func hdrKeys() map[string]Sort {
	out := map[string]Sort{kHdr + "#dom": arrOf(arrKV(SStr, SBool)), kHdr + "#len": arrOf(SInt), "elems|Str": arrOf(arrOf(SStr))}
	for _, c := range []string{"#b", "#o", "#l", "#c"} {
		out[kHdr+c] = arrOf(arrKV(SStr, SInt))
	}
	return out
}

func init() {
	errT := func() types.Type { return types.Universe.Lookup("error").Type() }
	_ = errT
	// ---- strconv
	regModel("strconv.ParseInt", func(x *Exec, fr *Frame, st *State, a []Value, pos token.Pos, rt types.Type) (Value, bool) {
		base, ok1 := tOf(a[1]).Lit()
		bits, ok2 := tOf(a[2]).Lit()
		if !ok1 || !ok2 || base.Int64() != 10 {
			return nil, false
		}
		b := int(bits.Int64())
		if b == 0 {
			b = 64
		}
		v, e := x.parseDec(st, tOf(a[0]), true, b)
		return VStruct{F: []Value{VTerm{v}, e}}, true
	})
	regModel("strconv.ParseUint", func(x *Exec, fr *Frame, st *State, a []Value, pos token.Pos, rt types.Type) (Value, bool) {
		base, ok1 := tOf(a[1]).Lit()
		bits, ok2 := tOf(a[2]).Lit()
		if !ok1 || !ok2 || base.Int64() != 10 {
			return nil, false
		}
		b := int(bits.Int64())
		if b == 0 {
			b = 64
		}
		v, e := x.parseDec(st, tOf(a[0]), false, b)
		return VStruct{F: []Value{VTerm{v}, e}}, true
	})
	regModel("strconv.Atoi", func(x *Exec, fr *Frame, st *State, a []Value, pos token.Pos, rt types.Type) (Value, bool) {
		v, e := x.parseDec(st, tOf(a[0]), true, 64)
		return VStruct{F: []Value{VTerm{v}, e}}, true
	})
	regModel("strconv.Itoa", func(x *Exec, fr *Frame, st *State, a []Value, pos token.Pos, rt types.Type) (Value, bool) {
		return VTerm{x.formatDec(tOf(a[0]))}, true
	})
	regModel("strconv.FormatInt", func(x *Exec, fr *Frame, st *State, a []Value, pos token.Pos, rt types.Type) (Value, bool) {
		if b, ok := tOf(a[1]).Lit(); !ok || b.Int64() != 10 {
			return nil, false
		}
		return VTerm{x.formatDec(tOf(a[0]))}, true
	})
	regModel("strconv.ParseFloat", func(x *Exec, fr *Frame, st *State, a []Value, pos token.Pos, rt types.Type) (Value, bool) {
		// any float64 (including ±Inf and NaN, which ParseFloat accepts as "Inf"/"NaN") or an error
		f := x.vc.Fresh("pf", SFP)
		e := x.freshErr("pf.err")
		return VStruct{F: []Value{VTerm{f}, e}}, true
	})
	regModel("math.IsNaN", func(x *Exec, fr *Frame, st *State, a []Value, pos token.Pos, rt types.Type) (Value, bool) {
		return VTerm{app(SBool, "fp.isNaN", tOf(a[0]))}, true
	})
	// ---- strings
	regModel("strings.HasPrefix", func(x *Exec, fr *Frame, st *State, a []Value, pos token.Pos, rt types.Type) (Value, bool) {
		return VTerm{x.hasPrefix(tOf(a[0]), tOf(a[1]))}, true
	})
	regModel("strings.HasSuffix", func(x *Exec, fr *Frame, st *State, a []Value, pos token.Pos, rt types.Type) (Value, bool) {
		return VTerm{x.hasSuffix(tOf(a[0]), tOf(a[1]))}, true
	})
	regModel("strings.TrimPrefix", func(x *Exec, fr *Frame, st *State, a []Value, pos token.Pos, rt types.Type) (Value, bool) {
		s, p := tOf(a[0]), tOf(a[1])
		r := x.vc.Fresh("trim", SStr)
		x.vc.strFacts(r)
		hp := x.hasPrefix(s, p)
		x.vc.Assert(Eq(r, Ite(hp, x.strSub(s, sLen(p), sLen(s)), s)))
		return VTerm{r}, true
	})
	regModel("strconv.FormatFloat", func(x *Exec, fr *Frame, st *State, a []Value, pos token.Pos, rt types.Type) (Value, bool) {
		// trusted: the text of a float is never empty (digits, "NaN", "+Inf", ...)
		r := x.vc.Fresh("ffloat", SStr)
		x.vc.strFacts(r)
		x.vc.Assert(Ge(sLen(r), IntLit(1)))
		return VTerm{r}, true
	})
	libFrames["strconv.FormatFloat"] = map[string]Sort{}
	regModel("strings.ToLower", func(x *Exec, fr *Frame, st *State, a []Value, pos token.Pos, rt types.Type) (Value, bool) {
		// r = lower(s), named ufs("strings.ToLower", s) in specs; trusted fact: idempotent
		f := x.vc.Fun("ufs|strings.ToLower", []Sort{SStr}, SStr)
		r := app(SStr, f, tOf(a[0]))
		x.vc.strFacts(r)
		x.vc.Assert(Eq(app(SStr, f, r), r))
		return VTerm{r}, true
	})
	regModel("strings.Cut", func(x *Exec, fr *Frame, st *State, a []Value, pos token.Pos, rt types.Type) (Value, bool) {
		// before, after, found = Cut(s, sep): named ufs("strings.Cut.before", s, sep) and
		// ufs("strings.Cut.after", s, sep) in specs; trusted facts: not found => before == s and
		// after == ""; found => len(before)+len(sep)+len(after) == len(s) and before is a prefix of s
		s, sep := tOf(a[0]), tOf(a[1])
		fb := x.vc.Fun("ufs|strings.Cut.before", []Sort{SStr, SStr}, SStr)
		fa := x.vc.Fun("ufs|strings.Cut.after", []Sort{SStr, SStr}, SStr)
		before, after := app(SStr, fb, s, sep), app(SStr, fa, s, sep)
		found := x.vc.Fresh("cutfound", SBool)
		x.vc.strFacts(before)
		x.vc.strFacts(after)
		x.vc.Assert(Implies(Not(found), And(Eq(before, s), Eq(sLen(after), IntLit(0)))))
		x.vc.Assert(Implies(found, And(Eq(Add(Add(sLen(before), sLen(sep)), sLen(after)), sLen(s)), x.hasPrefix(s, before))))
		return VStruct{[]Value{VTerm{before}, VTerm{after}, VTerm{found}}}, true
	})
	libFrames["strings.Cut"] = map[string]Sort{}
	libFrames["strings.ToLower"] = map[string]Sort{}
	libFrames["strings.TrimSpace"] = map[string]Sort{}
	regModel("strings.TrimSpace", func(x *Exec, fr *Frame, st *State, a []Value, pos token.Pos, rt types.Type) (Value, bool) {
		// r = trim(s); trusted facts: idempotent, never longer than the argument.
		// Specs name it as ufs("strings.TrimSpace", s).
		f := x.vc.Fun("ufs|strings.TrimSpace", []Sort{SStr}, SStr)
		s := tOf(a[0])
		r := app(SStr, f, s)
		x.vc.strFacts(r)
		x.vc.Assert(Eq(app(SStr, f, r), r))
		x.vc.Assert(Le(sLen(r), sLen(s)))
		return VTerm{r}, true
	})
	regModel("strings.Index", func(x *Exec, fr *Frame, st *State, a []Value, pos token.Pos, rt types.Type) (Value, bool) {
		s, sub := tOf(a[0]), tOf(a[1])
		r := x.vc.Fresh("index", SInt)
		x.vc.Assert(And(Ge(r, IntLit(-1)), Le(Add(r, sLen(sub)), sLen(s))))
		// single-character needle: characterise fully
		if lit, ok := x.litValue(sub); ok && len(lit) == 1 {
			c := IntLit(int64(lit[0]))
			x.vc.ctr++
			q := Term{fmt.Sprintf("i!q%d", x.vc.ctr), SInt}
			x.vc.Assert(Implies(Ge(r, IntLit(0)), Eq(x.strAt(s, r), c)))
			lim := Ite(Ge(r, IntLit(0)), r, sLen(s))
			x.vc.Assert(Term{fmt.Sprintf("(forall ((%s Int)) (! %s :pattern (%s)))", q.S,
				Implies(And(Le(IntLit(0), q), Lt(q, lim)), Neq(x.strAt(s, q), c)).S, x.strAt(s, q).S), SBool})
		}
		return VTerm{r}, true
	})
	regModel("strings.IndexByte", func(x *Exec, fr *Frame, st *State, a []Value, pos token.Pos, rt types.Type) (Value, bool) {
		s, c := tOf(a[0]), tOf(a[1])
		r := x.vc.Fresh("indexb", SInt)
		x.vc.Assert(And(Ge(r, IntLit(-1)), Lt(r, Ite(Eq(sLen(s), IntLit(0)), IntLit(0), sLen(s)))))
		x.vc.Assert(Implies(Ge(r, IntLit(0)), Eq(x.strAt(s, r), c)))
		// relation with strings.Count for a one-byte separator (trusted): bytecount(s, c) is the
		// number of occurrences of byte c in s; none iff IndexByte is -1, and the text after the
		// first occurrence holds one occurrence less
		bc := x.vc.Fun("uf|bytecount", []Sort{SStr, SInt}, SInt)
		cnt := app(SInt, bc, s, c)
		x.vc.Assert(Ge(cnt, IntLit(0)))
		x.vc.Assert(Eq(Eq(r, IntLit(-1)), Eq(cnt, IntLit(0))))
		rest := x.strSub(s, Add(r, IntLit(1)), sLen(s))
		x.vc.Assert(Implies(Ge(r, IntLit(0)), Eq(app(SInt, bc, rest, c), Sub(cnt, IntLit(1)))))
		return VTerm{r}, true
	})
	regModel("strings.IndexRune", func(x *Exec, fr *Frame, st *State, a []Value, pos token.Pos, rt types.Type) (Value, bool) {
		s := tOf(a[0])
		r := x.vc.Fresh("indexr", SInt)
		x.vc.Assert(And(Ge(r, IntLit(-1)), Lt(r, Ite(Eq(sLen(s), IntLit(0)), IntLit(0), sLen(s)))))
		return VTerm{r}, true
	})
	regModel("strings.Split", func(x *Exec, fr *Frame, st *State, a []Value, pos token.Pos, rt types.Type) (Value, bool) {
		// a new slice of at least one element (sep is non-empty at every call site of interest:
		// for an empty separator the result may be empty)
		r := x.fresh(rt, "split").(VSlice)
		ref := x.newRef(fr)
		r.Back = Backing{Heap: true, Ref: ref}
		x.assume(st, And(Eq(r.Off, IntLit(0)), Implies(Gt(sLen(tOf(a[1])), IntLit(0)), Ge(r.Len, IntLit(1)))))
		if sep, ok := x.constString(tOf(a[1])); ok && len(sep) == 1 {
			// no element contains the (one-byte) separator
			x.vc.ctr++
			i, k := Term{fmt.Sprintf("si!q%d", x.vc.ctr), SInt}, Term{fmt.Sprintf("sk!q%d", x.vc.ctr), SInt}
			el := Select(Select(x.heapGet(st, "elems|Str", arrOf(arrOf(SStr))), ref), i)
			x.assume(st, Term{fmt.Sprintf("(forall ((%s Int) (%s Int)) (=> (and (<= 0 %s) (< %s %s) (<= 0 %s) (< %s (sLen %s))) (not (= (sAt %s %s) %d))))",
				i.S, k.S, i.S, i.S, r.Len.S, k.S, k.S, el.S, el.S, k.S, int(sep[0])), SBool})
		}
		return r, true
	})
	libFrames["strings.Split"] = map[string]Sort{}
	regModel("(*strings.Builder).Grow", func(x *Exec, fr *Frame, st *State, a []Value, pos token.Pos, rt types.Type) (Value, bool) {
		x.oblige(fr, st, "bounds", "Grow:"+x.srcText(fr.fn, pos, isCall), "strings.Builder.Grow panics on a negative count", pos, Ge(tOf(a[1]), IntLit(0)), nil)
		return VStruct{}, true
	})
	regModel("strings.Join", func(x *Exec, fr *Frame, st *State, a []Value, pos token.Pos, rt types.Type) (Value, bool) {
		// pure: reads its arguments, returns a new string
		r := x.vc.Fresh("joined", SStr)
		x.vc.strFacts(r)
		if s, ok := a[0].(VSlice); ok {
			x.assume(st, Implies(Eq(s.Len, IntLit(0)), Eq(r, Term{"sEmpty", SStr})))
		}
		return VTerm{r}, true
	})
	regModel("strings.Count", func(x *Exec, fr *Frame, st *State, a []Value, pos token.Pos, rt types.Type) (Value, bool) {
		s := tOf(a[0])
		if sep, ok := x.constString(tOf(a[1])); ok && len(sep) == 1 {
			bc := x.vc.Fun("uf|bytecount", []Sort{SStr, SInt}, SInt)
			r := app(SInt, bc, s, IntLit(int64(sep[0])))
			x.vc.Assert(And(Ge(r, IntLit(0)), Le(r, sLen(s))))
			return VTerm{r}, true
		}
		r := x.vc.Fresh("count", SInt)
		x.vc.Assert(And(Ge(r, IntLit(0)), Le(r, Add(sLen(s), IntLit(1)))))
		return VTerm{r}, true
	})
	regModel("net/textproto.CanonicalMIMEHeaderKey", func(x *Exec, fr *Frame, st *State, a []Value, pos token.Pos, rt types.Type) (Value, bool) {
		t := x.canon(tOf(a[0]))
		x.vc.strFacts(t)
		return VTerm{t}, true
	})
	// ---- errors / fmt
	regModel("errors.New", func(x *Exec, fr *Frame, st *State, a []Value, pos token.Pos, rt types.Type) (Value, bool) {
		return x.newErrIdentity(fr, x.eng.namedPtr("errors", "errorString")), true
	})
	regModel("fmt.Errorf", func(x *Exec, fr *Frame, st *State, a []Value, pos token.Pos, rt types.Type) (Value, bool) {
		if f, ok := x.constString(tOf(a[0])); ok && !strings.Contains(f, "%w") {
			return x.newErrIdentity(fr, x.eng.namedPtr("fmt", "wrapError")), true
		}
		e := x.nonNilErr(st, "errorf")
		x.vc.Assert(Neq(e.Tag, IntLit(x.connErrTag())))
		x.vc.Assert(Neq(e.Tag, IntLit(x.httpErrTag())))
		return e, true
	})
	regModel("errors.Is", func(x *Exec, fr *Frame, st *State, a []Value, pos token.Pos, rt types.Type) (Value, bool) {
		ea, ok1 := a[0].(VIface)
		eb, ok2 := a[1].(VIface)
		if !ok1 || !ok2 {
			return nil, false
		}
		return VTerm{x.errIsAt(st, ea, eb)}, true
	})
	regModel("errors.As", func(x *Exec, fr *Frame, st *State, a []Value, pos token.Pos, rt types.Type) (Value, bool) {
		ea, ok1 := a[0].(VIface)
		tb, ok2 := a[1].(VIface)
		if !ok1 || !ok2 {
			return nil, false
		}
		addr, ok := x.boxedAddrs[tb.Val.S]
		if !ok {
			return nil, false
		}
		var found Term
		switch typeKey(addr.ElemT) {
		case "*connect.Error":
			found = x.connRef(ea)
		case "*vanguard.httpError":
			found = x.httpRef(ea)
		default:
			return nil, false
		}
		okT := x.vc.Name(Neq(found, IntLit(0)), "as.ok")
		// on success the target is set to the matching error, otherwise it is left unchanged
		old := x.loadAddr(fr, st, addr, addr.ElemT, pos)
		nv := x.mergeValues([]Value{VTerm{found}, old}, []Term{okT, TTrue}, addr.ElemT, "as.target")
		x.storeAddr(fr, st, addr, nv, pos)
		return VTerm{okT}, true
	})
	// ---- sync
	for _, n := range []string{"(*sync.Mutex).Lock", "(*sync.Mutex).Unlock", "(*sync.RWMutex).Lock", "(*sync.RWMutex).Unlock"} {
		regModel(n, func(x *Exec, fr *Frame, st *State, a []Value, pos token.Pos, rt types.Type) (Value, bool) {
			return VStruct{}, true
		})
	}
	// ---- encoding/binary
	regModel("(encoding/binary.bigEndian).Uint32", func(x *Exec, fr *Frame, st *State, a []Value, pos token.Pos, rt types.Type) (Value, bool) {
		s, ok := a[1].(VSlice)
		if !ok {
			return nil, false
		}
		x.oblige(fr, st, "bounds", "BigEndian.Uint32", "binary.BigEndian.Uint32 needs 4 bytes", pos, Ge(s.Len, IntLit(4)), nil)
		arr, ok := x.arrayOfBacking(fr, st, s.Back, types.Typ[types.Uint8])
		if !ok {
			return nil, false
		}
		at := func(i int64) Term { return Select(arr, Add(s.Off, IntLit(i))) }
		v := Add(Add(Mul(at(0), BigLit(pow2(24))), Mul(at(1), BigLit(pow2(16)))), Add(Mul(at(2), IntLit(256)), at(3)))
		for i := int64(0); i < 4; i++ {
			x.vc.Assert(And(Le(IntLit(0), at(i)), Le(at(i), IntLit(255))))
		}
		return VTerm{x.vc.Name(v, "be32")}, true
	})
	regModel("(encoding/binary.bigEndian).PutUint32", func(x *Exec, fr *Frame, st *State, a []Value, pos token.Pos, rt types.Type) (Value, bool) {
		s, ok := a[1].(VSlice)
		v := tOf(a[2])
		if !ok {
			return nil, false
		}
		x.oblige(fr, st, "bounds", "BigEndian.PutUint32", "binary.BigEndian.PutUint32 needs 4 bytes", pos, Ge(s.Len, IntLit(4)), nil)
		arr, ok := x.arrayOfBacking(fr, st, s.Back, types.Typ[types.Uint8])
		if !ok {
			return nil, false
		}
		for i := int64(0); i < 4; i++ {
			b := EMod(EDiv(v, BigLit(pow2(int(24-8*i)))), IntLit(256))
			arr = Store(arr, Add(s.Off, IntLit(i)), b)
		}
		x.setArrayOfBacking(fr, st, s.Back, types.Typ[types.Uint8], x.vc.Name(arr, "put32"))
		return VStruct{}, true
	})
	// ---- time
	regModel("(time.Duration).Milliseconds", func(x *Exec, fr *Frame, st *State, a []Value, pos token.Pos, rt types.Type) (Value, bool) {
		return VTerm{x.vc.Name(TDiv(tOf(a[0]), IntLit(1000000)), "ms")}, true
	})
	regModel("(time.Duration).Seconds", func(x *Exec, fr *Frame, st *State, a []Value, pos token.Pos, rt types.Type) (Value, bool) {
		// sec + nsec/1e9 in floating point; modelled as the correctly rounded quotient
		d := tOf(a[0])
		return VTerm{app(SFP, "(_ to_fp 11 53) RNE", app("Real", "/", app("Real", "to_real", d), Term{"1000000000.0", "Real"}))}, true
	})
}

// newErrIdentity: a freshly created error value that wraps nothing: errors.Is(e, t) iff t == e.
func (x *Exec) newErrIdentity(fr *Frame, tagType types.Type) VIface {
	e := VIface{IntLit(x.eng.typeTag(tagType)), x.newRef(fr)}
	x.vc.ctr++
	a := fmt.Sprintf("tt!q%d", x.vc.ctr)
	b := fmt.Sprintf("tv!q%d", x.vc.ctr)
	x.vc.Assert(Term{fmt.Sprintf("(forall ((%s Int) (%s Int)) (! (=> (errIs %s %s %s %s) (and (= %s %s) (= %s %s))) :pattern ((errIs %s %s %s %s))))",
		a, b, e.Tag.S, e.Val.S, a, b, a, e.Tag.S, b, e.Val.S, e.Tag.S, e.Val.S, a, b), SBool})
	x.vc.Assert(app(SBool, "errIs", e.Tag, e.Val, e.Tag, e.Val))
	return e
}

// constString evaluates a string term built from literals and concatenation.
func (x *Exec) constString(t Term) (string, bool) {
	if t.S == "sEmpty" {
		return "", true
	}
	if s, ok := x.litValue(t); ok {
		return s, true
	}
	if strings.HasPrefix(t.S, "(sCat ") {
		parts := splitTop(t.S[1 : len(t.S)-1])
		if len(parts) == 3 {
			a, ok1 := x.constString(Term{parts[1], SStr})
			b, ok2 := x.constString(Term{parts[2], SStr})
			return a + b, ok1 && ok2
		}
	}
	return "", false
}

func (x *Exec) plainErr(st *State) VIface {
	e := x.nonNilErr(st, "errnew")
	// errors.New values are not connect or http errors
	x.vc.Assert(Neq(e.Tag, IntLit(x.connErrTag())))
	x.vc.Assert(Neq(e.Tag, IntLit(x.httpErrTag())))
	return e
}

func (x *Exec) hasPrefix(s, p Term) Term {
	if p.S == "sEmpty" {
		return TTrue
	}
	f := x.vc.Fun("sHasPrefix", []Sort{SStr, SStr}, SBool)
	t := app(SBool, f, s, p)
	key := "hp:" + t.S
	if x.vc.declared[key] {
		return t
	}
	x.vc.declared[key] = true
	x.vc.Assert(Implies(t, Ge(sLen(s), sLen(p))))
	x.vc.Assert(Implies(Eq(s, p), t))
	x.vc.Assert(Implies(Eq(sLen(p), IntLit(0)), t))
	if lit, ok := x.litValue(p); ok && len(lit) <= 40 {
		// exact: prefix iff long enough and all characters agree
		cs := []Term{Ge(sLen(s), IntLit(int64(len(lit))))}
		for i := 0; i < len(lit); i++ {
			cs = append(cs, Eq(x.strAt(s, IntLit(int64(i))), IntLit(int64(lit[i]))))
		}
		x.vc.Assert(Eq(t, And(cs...)))
	} else {
		x.vc.ctr++
		q := Term{fmt.Sprintf("i!q%d", x.vc.ctr), SInt}
		x.vc.Assert(Implies(t, Term{fmt.Sprintf("(forall ((%s Int)) %s)", q.S,
			Implies(And(Le(IntLit(0), q), Lt(q, sLen(p))), Eq(x.strAt(s, q), x.strAt(p, q))).S), SBool}))
	}
	return t
}

func (x *Exec) hasSuffix(s, p Term) Term {
	f := x.vc.Fun("sHasSuffix", []Sort{SStr, SStr}, SBool)
	t := app(SBool, f, s, p)
	key := "hs:" + t.S
	if x.vc.declared[key] {
		return t
	}
	x.vc.declared[key] = true
	x.vc.Assert(Implies(t, Ge(sLen(s), sLen(p))))
	if lit, ok := x.litValue(p); ok && len(lit) <= 40 {
		cs := []Term{Ge(sLen(s), IntLit(int64(len(lit))))}
		for i := 0; i < len(lit); i++ {
			cs = append(cs, Eq(x.strAt(s, Add(Sub(sLen(s), IntLit(int64(len(lit)))), IntLit(int64(i)))), IntLit(int64(lit[i]))))
		}
		x.vc.Assert(Eq(t, And(cs...)))
	}
	return t
}
