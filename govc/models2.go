package main

// Library models, part 2: http.Header, bytes.Buffer, io, sync.Pool, connect errors.

import (
	"fmt"
	"go/token"
	"go/types"
)

func (x *Exec) newStrSlice1(fr *Frame, st *State, v Term) VSlice {
	ref := x.newRef(fr)
	h := x.heapGet(st, "elems|Str", arrOf(arrOf(SStr)))
	arr := x.vc.Fresh("hv", arrOf(SStr))
	x.vc.Assert(Eq(Select(arr, IntLit(0)), v))
	x.heapSet(st, "elems|Str", Store(h, ref, arr))
	return VSlice{Backing{Heap: true, Ref: ref}, IntLit(0), IntLit(1), IntLit(1)}
}

func init() {
	hk := hdrKeys()
	for _, n := range []string{"(net/http.Header).Set", "(net/http.Header).Del", "(net/http.Header).Add"} {
		libFrames[n] = hk
	}
	libFrames["(net/http.Header).Clone"] = hk
	regModel("(net/http.Header).Get", func(x *Exec, fr *Frame, st *State, a []Value, pos token.Pos, rt types.Type) (Value, bool) {
		return VTerm{x.hdrGet(st, tOf(a[0]), tOf(a[1]))}, true
	})
	regModel("(net/http.Header).Values", func(x *Exec, fr *Frame, st *State, a []Value, pos token.Pos, rt types.Type) (Value, bool) {
		h, ck := tOf(a[0]), x.canon(tOf(a[1]))
		v := x.mapGetVal(st, x.hdrShape(), h, ck)
		z := x.zero(types.NewSlice(types.Typ[types.String]))
		return x.mergeValues([]Value{v, z}, []Term{x.hdrHasRaw(st, h, ck), TTrue}, types.NewSlice(types.Typ[types.String]), "hvals"), true
	})
	regModel("(net/http.Header).Set", func(x *Exec, fr *Frame, st *State, a []Value, pos token.Pos, rt types.Type) (Value, bool) {
		h, ck := tOf(a[0]), x.canon(tOf(a[1]))
		x.oblige(fr, st, "nil", "header.Set", "Set on nil http.Header", pos, Neq(h, IntLit(0)), nil)
		x.mapStore(st, x.hdrShape(), h, ck, x.newStrSlice1(fr, st, tOf(a[2])))
		return VStruct{}, true
	})
	regModel("(net/http.Header).Del", func(x *Exec, fr *Frame, st *State, a []Value, pos token.Pos, rt types.Type) (Value, bool) {
		h, ck := tOf(a[0]), x.canon(tOf(a[1]))
		// Del on a nil map is a no-op
		x.mapDelete(st, x.hdrShape(), h, ck)
		return VStruct{}, true
	})
	regModel("(net/http.Header).Add", func(x *Exec, fr *Frame, st *State, a []Value, pos token.Pos, rt types.Type) (Value, bool) {
		h, ck := tOf(a[0]), x.canon(tOf(a[1]))
		x.oblige(fr, st, "nil", "header.Add", "Add on nil http.Header", pos, Neq(h, IntLit(0)), nil)
		ms := x.hdrShape()
		had := x.hdrHasRaw(st, h, ck)
		old := x.mapGetVal(st, ms, h, ck).(VSlice)
		oldLen := x.vc.Name(Ite(had, old.Len, IntLit(0)), "addl")
		oldFirst := Select(Select(x.heapGet(st, "elems|Str", arrOf(arrOf(SStr))), old.Back.Ref), old.Off)
		ref := x.newRef(fr)
		arr := x.vc.Fresh("hv", arrOf(SStr))
		v := tOf(a[2])
		x.vc.Assert(Eq(Select(arr, oldLen), v))
		x.vc.Assert(Implies(Gt(oldLen, IntLit(0)), Eq(Select(arr, IntLit(0)), oldFirst)))
		eh := x.heapGet(st, "elems|Str", arrOf(arrOf(SStr)))
		x.heapSet(st, "elems|Str", Store(eh, ref, arr))
		x.mapStore(st, ms, h, ck, VSlice{Backing{Heap: true, Ref: ref}, IntLit(0), Add(oldLen, IntLit(1)), Add(oldLen, IntLit(1))})
		return VStruct{}, true
	})
	regModel("(net/http.Header).Clone", func(x *Exec, fr *Frame, st *State, a []Value, pos token.Pos, rt types.Type) (Value, bool) {
		h := tOf(a[0])
		ref := x.newRef(fr)
		for k, s := range hdrKeys() {
			if k == "elems|Str" {
				continue
			}
			arr := x.heapGet(st, k, s)
			x.heapSet(st, k, Store(arr, ref, Select(arr, h)))
		}
		// Clone of nil is nil
		return VTerm{x.vc.Name(Ite(Eq(h, IntLit(0)), IntLit(0), ref), "clone")}, true
	})

	// ---- bytes.Buffer
	bufK := map[string]Sort{kBufLen: arrOf(SInt)}
	for _, n := range []string{"(*bytes.Buffer).Write", "(*bytes.Buffer).WriteString", "(*bytes.Buffer).WriteByte", "(*bytes.Buffer).Reset", "(*bytes.Buffer).Read", "(*bytes.Buffer).WriteTo", "(*bytes.Buffer).ReadFrom", "(*bytes.Buffer).Truncate", "(*bytes.Buffer).Next", "(*bytes.Buffer).Grow"} {
		libFrames[n] = bufK
	}
	bufNil := func(x *Exec, fr *Frame, st *State, b Term, what string, pos token.Pos) {
		txt := x.srcText(fr.fn, pos, isCall)
		x.oblige(fr, st, "nil", "buffer:"+txt, "nil *bytes.Buffer in "+what, pos, Neq(b, IntLit(0)), nil)
		if what != "Len" && what != "Cap" {
			x.oblige(fr, st, "owned", "use:"+txt, "buffer is owned by the caller when used (not yet returned to the pool): "+txt, pos, x.bufOwned(st, b), []string{"C14"})
		}
	}
	regModel("(*bytes.Buffer).Len", func(x *Exec, fr *Frame, st *State, a []Value, pos token.Pos, rt types.Type) (Value, bool) {
		b := tOf(a[0])
		bufNil(x, fr, st, b, "Len", pos)
		l := x.bufLen(st, b)
		x.assume(st, And(Ge(l, IntLit(0)), Le(l, BigLit(pow2(48)))))
		return VTerm{l}, true
	})
	regModel("(*bytes.Buffer).Cap", func(x *Exec, fr *Frame, st *State, a []Value, pos token.Pos, rt types.Type) (Value, bool) {
		b := tOf(a[0])
		bufNil(x, fr, st, b, "Cap", pos)
		return VTerm{x.bufCapTerm(st, b)}, true
	})
	regModel("(*bytes.Buffer).Reset", func(x *Exec, fr *Frame, st *State, a []Value, pos token.Pos, rt types.Type) (Value, bool) {
		b := tOf(a[0])
		bufNil(x, fr, st, b, "Reset", pos)
		x.setBufLen(st, b, IntLit(0))
		x.bufMarkUnread(st, b)
		return VStruct{}, true
	})
	regModel("(*bytes.Buffer).Grow", func(x *Exec, fr *Frame, st *State, a []Value, pos token.Pos, rt types.Type) (Value, bool) {
		b := tOf(a[0])
		bufNil(x, fr, st, b, "Grow", pos)
		x.oblige(fr, st, "bounds", "Grow:"+x.srcText(fr.fn, pos, isCall), "bytes.Buffer.Grow panics on a negative count", pos, Ge(tOf(a[1]), IntLit(0)), nil)
		// the capacity changes: start a new version of the buffer state so that capacity terms
		// recorded for the old version are not reused (see bufCapTerm)
		wasUnread := x.bufUnreadF(st, b)
		l := x.bufLen(st, b)
		x.bufBump(st, b)
		// Grow(n) guarantees room for n more bytes: Cap() >= Len() + n; nothing is read
		x.assume(st, Ge(x.bufCapF(st, b), Add(l, tOf(a[1]))))
		x.assume(st, Eq(x.bufUnreadF(st, b), wasUnread))
		return VStruct{}, true
	})
	wr := func(x *Exec, fr *Frame, st *State, a []Value, pos token.Pos, n Term) (Value, bool) {
		b := tOf(a[0])
		bufNil(x, fr, st, b, "Write", pos)
		x.setBufLen(st, b, x.vc.Name(Add(x.bufLen(st, b), n), "blen"))
		return VStruct{F: []Value{VTerm{n}, nilErr()}}, true
	}
	regModel("(*bytes.Buffer).Write", func(x *Exec, fr *Frame, st *State, a []Value, pos token.Pos, rt types.Type) (Value, bool) {
		s, ok := a[1].(VSlice)
		if !ok {
			return nil, false
		}
		return wr(x, fr, st, a, pos, s.Len)
	})
	regModel("(*bytes.Buffer).WriteString", func(x *Exec, fr *Frame, st *State, a []Value, pos token.Pos, rt types.Type) (Value, bool) {
		return wr(x, fr, st, a, pos, sLen(tOf(a[1])))
	})
	regModel("(*bytes.Buffer).WriteByte", func(x *Exec, fr *Frame, st *State, a []Value, pos token.Pos, rt types.Type) (Value, bool) {
		b := tOf(a[0])
		bufNil(x, fr, st, b, "WriteByte", pos)
		x.setBufLen(st, b, x.vc.Name(Add(x.bufLen(st, b), IntLit(1)), "blen"))
		return nilErr(), true
	})
	regModel("(*bytes.Buffer).Read", func(x *Exec, fr *Frame, st *State, a []Value, pos token.Pos, rt types.Type) (Value, bool) {
		b := tOf(a[0])
		s, ok := a[1].(VSlice)
		if !ok {
			return nil, false
		}
		bufNil(x, fr, st, b, "Read", pos)
		l := x.bufLen(st, b)
		n := x.vc.Name(Ite(Le(s.Len, l), s.Len, l), "rdn")
		x.setBufLen(st, b, x.vc.Name(Sub(l, n), "blen"))
		x.havocArgs(fr, st, []Value{s}, nil)
		// io.EOF iff the buffer was empty and the destination is non-empty
		isEOF := x.vc.Name(And(Eq(l, IntLit(0)), Gt(s.Len, IntLit(0))), "bufeof")
		e := x.freshErr("rderr")
		if g := x.eng.globalNamed("io", "EOF"); g != nil {
			eof := x.loadGlobal(st, g, nil).(VIface)
			e = VIface{x.vc.Name(Ite(isEOF, eof.Tag, IntLit(0)), "rderr.t"), x.vc.Name(Ite(isEOF, eof.Val, IntLit(0)), "rderr.v")}
		} else {
			x.assume(st, Eq(Neq(e.Tag, IntLit(0)), isEOF))
		}
		return VStruct{F: []Value{VTerm{n}, e}}, true
	})
	regModel("(*bytes.Buffer).Bytes", func(x *Exec, fr *Frame, st *State, a []Value, pos token.Pos, rt types.Type) (Value, bool) {
		b := tOf(a[0])
		bufNil(x, fr, st, b, "Bytes", pos)
		s := x.fresh(types.NewSlice(types.Typ[types.Uint8]), "bytes").(VSlice)
		x.assume(st, Eq(s.Len, x.bufLen(st, b)))
		// Bytes() is buf[off:], so its capacity is Cap()-off; off is 0 for a buffer nothing was
		// read from since it was reset / taken from the pool
		c := x.bufCapTerm(st, b)
		x.assume(st, And(Le(s.Cap, c), Implies(x.bufUnreadF(st, b), Eq(s.Cap, c))))
		return s, true
	})
	regModel("(*bytes.Buffer).WriteTo", func(x *Exec, fr *Frame, st *State, a []Value, pos token.Pos, rt types.Type) (Value, bool) {
		// WriteTo calls w.Write exactly once with the unread bytes (if any) and drains what was
		// accepted; it returns the writer's error (or io.ErrShortWrite).
		b := tOf(a[0])
		bufNil(x, fr, st, b, "WriteTo", pos)
		l := x.bufLen(st, b)
		wt := x.eng.namedType("io", "Writer")
		it, _ := wt.Underlying().(*types.Interface)
		if it == nil {
			return nil, false
		}
		var sig *types.Signature
		for i := 0; i < it.NumMethods(); i++ {
			if it.Method(i).Name() == "Write" {
				sig = it.Method(i).Type().(*types.Signature)
			}
		}
		chunk := x.fresh(types.NewSlice(types.Typ[types.Uint8]), "wto.chunk").(VSlice)
		x.assume(st, Eq(chunk.Len, l))
		// empty buffer: no call
		s2 := st.clone()
		s2.pc = x.vc.Name(And(st.pc, Gt(l, IntLit(0))), "wto")
		res := x.invokeCore(fr, s2, fr.curBlk.Instrs[0], wt, "Write", sig, []Value{chunk}, a[1], sig.Results(), pos)
		s1 := st.clone()
		s1.pc = And(st.pc, Not(Gt(l, IntLit(0))))
		var n Term = IntLit(0)
		var e VIface = nilErr()
		if rs, ok := res.(VStruct); ok && len(rs.F) == 2 {
			n = tOf(rs.F[0])
			if ev, ok := rs.F[1].(VIface); ok {
				e = ev
			}
		}
		short := x.freshErr("shortwrite")
		x.vc.Assert(Neq(short.Tag, IntLit(0)))
		m := x.mergeStates([]edge{{nil, TTrue, s2}, {nil, TTrue, s1}})
		pc := st.pc
		nonEmpty := Gt(l, IntLit(0))
		*st = *m
		st.pc = pc
		nn := x.vc.Name(Ite(nonEmpty, n, IntLit(0)), "wton")
		x.assume(st, And(Le(IntLit(0), nn), Le(nn, l)))
		// error: the writer's, or ErrShortWrite when it accepted less without error
		etag := x.vc.Name(Ite(nonEmpty, Ite(And(Eq(e.Tag, IntLit(0)), Lt(nn, l)), short.Tag, e.Tag), IntLit(0)), "wtoerr.t")
		eval := x.vc.Name(Ite(nonEmpty, Ite(And(Eq(e.Tag, IntLit(0)), Lt(nn, l)), short.Val, e.Val), IntLit(0)), "wtoerr.v")
		x.setBufLen(st, b, x.vc.Name(Sub(x.bufLen(st, b), nn), "blen"))
		return VStruct{F: []Value{VTerm{nn}, VIface{etag, eval}}}, true
	})
	regModel("(*bytes.Buffer).ReadFrom", func(x *Exec, fr *Frame, st *State, a []Value, pos token.Pos, rt types.Type) (Value, bool) {
		b := tOf(a[0])
		bufNil(x, fr, st, b, "ReadFrom", pos)
		l := x.bufLen(st, b)
		n := x.vc.Fresh("rfn", SInt)
		e := x.freshErr("rferr")
		x.assume(st, Ge(n, IntLit(0))) // no upper bound: the reader decides
		x.setBufLen(st, b, x.vc.Name(Add(l, n), "blen"))
		return VStruct{F: []Value{VTerm{n}, e}}, true
	})
	regModel("bytes.NewBuffer", func(x *Exec, fr *Frame, st *State, a []Value, pos token.Pos, rt types.Type) (Value, bool) {
		s, ok := a[0].(VSlice)
		if !ok {
			return nil, false
		}
		ref := x.newRef(fr)
		x.assume(st, Not(x.bufOwned(st, ref)))
		x.setBufOwned(st, ref, TTrue)
		x.setBufLen(st, ref, s.Len)
		return VTerm{ref}, true
	})

	// ---- sync.Pool through bufferPool: modelled at the package's own wrapper level by contracts;
	// the raw pool returns an arbitrary previously stored object or a new one.
	regModel("(*sync.Pool).Get", func(x *Exec, fr *Frame, st *State, a []Value, pos token.Pos, rt types.Type) (Value, bool) {
		// pools never hold typed-nil pointers (every Put in the package passes a non-nil object)
		r := x.fresh(rt, "poolget").(VIface)
		x.vc.Assert(Implies(Neq(r.Tag, IntLit(0)), Neq(r.Val, IntLit(0))))
		x.poolVals[r.Tag.S] = true
		x.vc.assumption("sync.Pool: Get returns a value of the type the pool's New function and the package's Put calls supply (type assertions on it succeed)")
		return r, true
	})
	regModel("(*sync.Pool).Put", func(x *Exec, fr *Frame, st *State, a []Value, pos token.Pos, rt types.Type) (Value, bool) {
		return VStruct{}, true
	})

	// ---- connect errors
	libFrames["connectrpc.com/connect.NewError"] = map[string]Sort{kConnCode: arrOf(SInt)}
	libFrames["connectrpc.com/connect.NewWireError"] = map[string]Sort{kConnCode: arrOf(SInt)}
	newErr := func(x *Exec, fr *Frame, st *State, a []Value, pos token.Pos, rt types.Type) (Value, bool) {
		ref := x.newRef(fr)
		h := x.heapGet(st, kConnCode, arrOf(SInt))
		x.heapSet(st, kConnCode, Store(h, ref, tOf(a[0])))
		// errors.Is on the new error: itself, or whatever the wrapped error is
		if u, ok := a[1].(VIface); ok {
			tag := IntLit(x.connErrTag())
			x.vc.ctr++
			ta := fmt.Sprintf("tt!q%d", x.vc.ctr)
			tb := fmt.Sprintf("tv!q%d", x.vc.ctr)
			x.vc.Assert(Term{fmt.Sprintf("(forall ((%s Int) (%s Int)) (! (=> (errIs %s %s %s %s) (or (and (= %s %s) (= %s %s)) (errIs %s %s %s %s))) :pattern ((errIs %s %s %s %s))))",
				ta, tb, tag.S, ref.S, ta, tb, ta, tag.S, tb, ref.S, u.Tag.S, u.Val.S, ta, tb, tag.S, ref.S, ta, tb), SBool})
		}
		return VTerm{ref}, true
	}
	regModel("connectrpc.com/connect.NewError", newErr)
	regModel("connectrpc.com/connect.NewWireError", newErr)
	regModel("(*connectrpc.com/connect.Error).Code", func(x *Exec, fr *Frame, st *State, a []Value, pos token.Pos, rt types.Type) (Value, bool) {
		// Code() on a nil *Error returns CodeUnknown; on others the stored code
		r := tOf(a[0])
		c := x.connCode(st, r)
		x.assume(st, And(Ge(c, IntLit(0)), Le(c, BigLit(new(bigInt).Sub(pow2(32), one)))))
		return VTerm{x.vc.Name(Ite(Eq(r, IntLit(0)), IntLit(2), c), "code")}, true
	})
}

// writerEffect: a library function wrote to an io.Writer value.
func (x *Exec) writerEffect(fr *Frame, st *State, w Value, pos token.Pos) {
	x.homeMethodEffect(st, w, "Write")
}

// Ghost ownership of pooled buffers (C14): the package's bufferPool wrapper hands out buffers that
// nobody else owns and takes back only buffers the caller owns. The bodies of Get/Put/Wrap are
// verified against their (non-ghost) contracts separately; at call sites this model adds the
// linear-ownership bookkeeping that sync.Pool's contract implies.
func init() {
	const pfx = "(*connectrpc.com/vanguard.bufferPool)."
	libFrames[pfx+"Get"] = map[string]Sort{kBufLen: arrOf(SInt), kBufOwned: arrOf(SBool)}
	libFrames[pfx+"Put"] = map[string]Sort{kBufOwned: arrOf(SBool)}
	libFrames[pfx+"Wrap"] = map[string]Sort{kBufLen: arrOf(SInt), kBufOwned: arrOf(SBool)}
	libFrames["bytes.NewBuffer"] = map[string]Sort{kBufLen: arrOf(SInt), kBufOwned: arrOf(SBool)}
	regModel(pfx+"Get", func(x *Exec, fr *Frame, st *State, a []Value, pos token.Pos, rt types.Type) (Value, bool) {
		x.nilCheck(fr, st, tOf(a[0]), pos)
		r := x.vc.Fresh("pooled", SInt)
		x.vc.Assert(Gt(r, IntLit(0)))
		x.assume(st, Not(x.bufOwned(st, r))) // not owned by anybody at the time of the call
		x.setBufOwned(st, r, TTrue)
		x.setBufLen(st, r, IntLit(0))
		x.bufMarkUnread(st, r)
		return VTerm{r}, true
	})
	regModel(pfx+"Put", func(x *Exec, fr *Frame, st *State, a []Value, pos token.Pos, rt types.Type) (Value, bool) {
		x.nilCheck(fr, st, tOf(a[0]), pos)
		b := tOf(a[1])
		txt := x.srcText(fr.fn, pos, isCall)
		x.oblige(fr, st, "nil", "buffer:"+txt, "nil *bytes.Buffer returned to the pool: "+txt, pos, Neq(b, IntLit(0)), nil)
		x.oblige(fr, st, "owned", txt, "buffer returned to the pool is owned by the caller (no double release, no release of a shared buffer): "+txt, pos, x.bufOwned(st, b), []string{"C14"})
		x.setBufOwned(st, b, TFalse)
		return VStruct{}, true
	})
	regModel(pfx+"Wrap", func(x *Exec, fr *Frame, st *State, a []Value, pos token.Pos, rt types.Type) (Value, bool) {
		orig := tOf(a[2])
		data, ok := a[1].(VSlice)
		if !ok {
			return nil, false
		}
		x.oblige(fr, st, "nil", "buffer:Wrap", "nil *bytes.Buffer passed to Wrap", pos, Neq(orig, IntLit(0)), nil)
		fresh := x.newRef(fr)
		x.assume(st, Not(x.bufOwned(st, fresh))) // a newly allocated buffer was never owned
		same := x.vc.Fresh("wrap.same", SBool)
		r := x.vc.Name(Ite(same, orig, fresh), "wrapped")
		// when a new buffer is returned the original is dropped for the garbage collector:
		// nobody owns (or may use) it any more
		x.setBufOwned(st, orig, TFalse)
		x.setBufOwned(st, r, TTrue)
		x.setBufLen(st, r, data.Len)
		return VTerm{r}, true
	})
}

// Capacity and read offset of a *bytes.Buffer are not separate heap keys: they are uninterpreted
// functions of (buffer, the whole buf|len array). Every buffer operation changes that array, so
// nothing is known about capacity across operations unless a model says so. Operations that change
// capacity or offset without changing any length (Grow, Reset of an empty buffer, pool Get) bump an
// "epoch" stored in the same array at a shadow index far below every real reference, which makes the
// new array differ from the old one.
func bufShadow(b Term) Term { return Sub(IntLit(-1000000000000), b) }

func (x *Exec) bufBump(st *State, b Term) {
	// every reference of this encoding (entry objects >= 0, allocations -1, -2, ..., loop
	// allocations above -1000000*(allocations+1)) lies far above the shadow range
	x.fact("refrange:"+b.S, Gt(b, IntLit(-100000000000)))
	h := x.heapGet(st, kBufLen, arrOf(SInt))
	x.heapSet(st, kBufLen, x.vc.Name(Store(h, bufShadow(b), Add(Select(h, bufShadow(b)), IntLit(1))), "H|buf|len"))
}

func (x *Exec) bufCapF(st *State, b Term) Term {
	f := x.vc.Fun("bufcap", []Sort{SInt, arrOf(SInt)}, SInt)
	c := app(SInt, f, b, x.heapGet(st, kBufLen, arrOf(SInt)))
	x.assume(st, And(Ge(c, x.bufLen(st, b)), Ge(c, IntLit(0)), Le(c, BigLit(pow2(48)))))
	return c
}

func (x *Exec) bufUnreadF(st *State, b Term) Term {
	f := x.vc.Fun("bufunread", []Sort{SInt, arrOf(SInt)}, SBool)
	return app(SBool, f, b, x.heapGet(st, kBufLen, arrOf(SInt)))
}

func (x *Exec) bufMarkUnread(st *State, b Term) {
	x.bufBump(st, b)
	x.assume(st, x.bufUnreadF(st, b))
}

func (x *Exec) bufCapTerm(st *State, b Term) Term { return x.bufCapF(st, b) }
