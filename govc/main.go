package main

import (
	"crypto/sha256"
	"encoding/hex"
	"encoding/json"
	"flag"
	"fmt"
	"os"
	"path/filepath"
	"sort"
	"strings"
	"sync"
	"time"

	"golang.org/x/tools/go/ssa"
)

type Options struct {
	Repo           string
	Specs          string
	Out            string
	Prop           string
	Tier           string
	Funcs          string
	Verbose        bool
	DumpSSA        string
	Timeout        int
	Agree          bool
	Jobs           int
	Sweep          bool
	Solver         string
	NoCache        bool
	UpdateBaseline bool
	Seed           int
	NoReplay       bool
	Keep           bool
	Frame          string
	Show           string
	Explain        bool
	NilAssumed     bool
	State          string
}

func main() {
	var o Options
	flag.StringVar(&o.Repo, "repo", "/repo", "repository root")
	flag.StringVar(&o.Specs, "specs", "/verif/specs", "directory with *.spec files")
	flag.StringVar(&o.Out, "out", "/verif/out", "output directory")
	flag.StringVar(&o.Prop, "prop", "", "property id")
	flag.StringVar(&o.Tier, "tier", "quick", "quick|thorough")
	flag.StringVar(&o.Funcs, "fn", "", "comma separated function keys (debug)")
	flag.BoolVar(&o.Verbose, "v", false, "verbose")
	flag.StringVar(&o.DumpSSA, "dumpssa", "", "dump SSA of function key and exit")
	flag.IntVar(&o.Timeout, "timeout", 10, "solver timeout (s)")
	flag.BoolVar(&o.Agree, "agree", false, "require solver agreement")
	flag.IntVar(&o.Jobs, "j", 6, "parallel obligations")
	flag.BoolVar(&o.Sweep, "sweep", false, "zero-annotation safety sweep over all functions")
	flag.StringVar(&o.Solver, "solver", "", "use only this solver")
	flag.BoolVar(&o.NoCache, "nocache", false, "do not reuse cached solver answers")
	flag.BoolVar(&o.UpdateBaseline, "update-baseline", false, "record discharged obligations as the baseline")
	flag.IntVar(&o.Seed, "seed", 0, "seed (unused by proofs; recorded in evidence)")
	flag.BoolVar(&o.NoReplay, "noreplay", false, "do not replay counterexamples")
	flag.BoolVar(&o.Keep, "keep", false, "keep the SMT files of discharged obligations")
	flag.StringVar(&o.Frame, "frame", "", "print the inferred frame of a function and exit")
	flag.StringVar(&o.Show, "show", "", "debug: ;-separated spec expressions evaluated at exit and shown in counterexamples")
	flag.BoolVar(&o.Explain, "explain", false, "debug: report the failing conjuncts of failed obligations")
	flag.StringVar(&o.State, "state", "", "directory with known_findings.json and baseline/ (default: parent of -out)")
	flag.BoolVar(&coverReturns, "covers", false, "audit: reachability cover for every return statement")
	flag.Parse()
	showExprs = o.Show

	start := time.Now()
	var specFiles []string
	if ents, err := os.ReadDir(o.Specs); err == nil {
		for _, en := range ents {
			if strings.HasSuffix(en.Name(), ".spec") {
				specFiles = append(specFiles, filepath.Join(o.Specs, en.Name()))
			}
		}
	}
	eng, err := loadEngine(o.Repo, specFiles)
	if err != nil {
		fmt.Fprintln(os.Stderr, "govc: load failed:", err)
		os.Exit(3)
	}
	eng.loadTime = time.Since(start).Seconds()
	if o.DumpSSA != "" {
		if fn := eng.funcs[o.DumpSSA]; fn != nil {
			fn.WriteTo(os.Stdout)
		} else {
			var ks []string
			for k := range eng.funcs {
				ks = append(ks, k)
			}
			sort.Strings(ks)
			fmt.Println(strings.Join(ks, "\n"))
		}
		return
	}
	if o.Frame != "" {
		fn := eng.funcs[o.Frame]
		if fn == nil {
			fmt.Println("no such function")
			return
		}
		fs := eng.frameOf(fn)
		fmt.Println("all:", fs.all)
		for _, k := range sortedKeys(fs.keys) {
			fmt.Println("  ", k)
		}
		return
	}
	if o.Funcs == "all" {
		var ks []string
		for _, k := range eng.contracts.Order {
			if !eng.contracts.Funcs[k].Trusted && eng.funcs[k] != nil && eng.contracts.Funcs[k].Opts["inline"] == "" {
				ks = append(ks, k)
			}
		}
		o.Funcs = strings.Join(ks, ",")
	}
	if o.Funcs != "" {
		os.Exit(debugRun(eng, &o))
	}
	os.Exit(runProperty(eng, &o, start))
}

func debugRun(eng *Engine, o *Options) int {
	rc := 0
	for _, key := range strings.Split(o.Funcs, ",") {
		fn := eng.funcs[key]
		if fn == nil {
			fmt.Println("no such function:", key)
			return 3
		}
		t0 := time.Now()
		res := eng.verifyFunction(fn, eng.contracts.Funcs[key], false)
		res.GenS = time.Since(t0).Seconds()
		if o.Prop != "" {
			var kept []*Obligation
			for _, ob := range res.Obls {
				if relevant(ob, o.Prop) {
					kept = append(kept, ob)
				}
			}
			res.Obls = kept
		}
		solveAll(eng, o, []*FuncResult{res})
		fmt.Printf("== %s: %d obligations, gen %.2fs\n", key, len(res.Obls), res.GenS)
		for _, e := range res.SpecErrors {
			fmt.Println("   SPEC-ERROR:", e)
		}
		for _, ob := range res.Obls {
			fmt.Printf("   %-10s %-60s %-8s %-7s %.2fs  %s\n", ob.Status, ob.Name, ob.Res.Status, ob.Res.Solver, ob.Res.TimeS, trunc(ob.Desc, 70))
			if ob.Status == "failed" || ob.Status == "unknown" {
				rc = 1
				if o.Explain {
					explain(eng, o, res, ob)
				}
				if o.Verbose {
					fmt.Println("      file:", ob.File)
					for _, in := range ob.Inputs {
						if v, ok := ob.Res.Model[in.Term.S]; ok {
							fmt.Printf("      %s = %s\n", in.Name, v)
						}
					}
				}
			}
		}
		if o.Verbose {
			for _, n := range sortedKeysB(res.VC.notes) {
				fmt.Println("   note:", n)
			}
			for _, n := range sortedKeysB(res.VC.assume) {
				fmt.Println("   assume:", n)
			}
		}
	}
	return rc
}

// solveAll discharges every obligation of the given functions (parallel, cached by query hash).
func solveAll(eng *Engine, o *Options, results []*FuncResult) {
	type job struct {
		fr *FuncResult
		ob *Obligation
	}
	var jobs []job
	for _, fr := range results {
		for _, ob := range fr.Obls {
			jobs = append(jobs, job{fr, ob})
		}
	}
	qdir := filepath.Join(o.Out, "queries")
	cdir := filepath.Join(o.Out, "cache")
	_ = os.MkdirAll(qdir, 0o755)
	_ = os.MkdirAll(cdir, 0o755)
	ch := make(chan job)
	var wg sync.WaitGroup
	for i := 0; i < o.Jobs; i++ {
		wg.Add(1)
		go func() {
			defer wg.Done()
			for j := range ch {
				script := j.fr.VC.Script(j.ob)
				sum := sha256.Sum256([]byte(script))
				h := hex.EncodeToString(sum[:12])
				file := filepath.Join(qdir, sanitize(j.fr.Key, 40)+"__"+sanitize(j.ob.Name, 60)+"_"+h[:8]+".smt2")
				j.ob.File = file
				_ = writeFile(file, script)
				cfile := filepath.Join(cdir, h+".json")
				var res SolveResult
				cached := false
				if !o.NoCache && !o.Agree {
					if data, err := os.ReadFile(cfile); err == nil {
						if json.Unmarshal(data, &res) == nil && (res.Status == "sat" || res.Status == "unsat") {
							cached = true
						}
					}
				}
				if !cached {
					res = Solve(file, o.Timeout, o.Agree, o.Solver)
					if res.Status == "sat" || res.Status == "unsat" {
						if data, err := json.Marshal(res); err == nil {
							_ = os.WriteFile(cfile, data, 0o644)
						}
					}
				}
				j.ob.Res = res
				if res.Status == "unsat" && !o.Keep {
					_ = os.Remove(file)
				}
				switch {
				case j.ob.Cover:
					if res.Status == "sat" {
						j.ob.Status = "cover-ok"
					} else if res.Status == "unsat" {
						j.ob.Status = "cover-fail"
					} else {
						j.ob.Status = "cover-unknown"
					}
				case res.Status == "unsat":
					j.ob.Status = "discharged"
				case res.Status == "sat":
					j.ob.Status = "failed"
				default:
					j.ob.Status = "unknown"
				}
			}
		}()
	}
	for _, j := range jobs {
		ch <- j
	}
	close(ch)
	wg.Wait()
}

var _ = ssa.NaiveForm

var showExprs string
