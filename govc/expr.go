package main

// Evaluation of specification expressions to SMT terms over the symbolic state.

import (
	"fmt"
	"go/ast"
	"go/constant"
	"go/token"
	"go/types"
	"strconv"
	"strings"

	"golang.org/x/tools/go/ssa"
)

type TV struct {
	V Value
	T types.Type // nil for untyped constants / spec-only values
}

type Env struct {
	x         *Exec
	fr        *Frame
	st        *State
	old       *State
	vars      map[string]TV
	subs      map[string]*SExpr
	pkg       *types.Package
	inOld     bool
	locals    func(name string) (TV, bool)
	err       error
	atArgs    []TV // arg(k) inside atcall clauses
	entryVars map[string]TV
}

func (env *Env) fail(format string, a ...any) TV {
	if env.err == nil {
		env.err = fmt.Errorf(format, a...)
	}
	return TV{VTerm{env.x.vc.Fresh("specerr", SBool)}, types.Typ[types.Bool]}
}

func (env *Env) state() *State {
	if env.inOld && env.old != nil {
		return env.old
	}
	return env.st
}

func tvTerm(tv TV) (Term, bool) {
	switch v := tv.V.(type) {
	case VTerm:
		return v.T, true
	case VAddr:
		if v.Kind == AOpaque {
			return v.Opaque, true
		}
	}
	return Term{}, false
}

func (env *Env) boolOf(tv TV) Term {
	if t, ok := tvTerm(tv); ok && t.Sort == SBool {
		return t
	}
	return env.fail("expected boolean").V.(VTerm).T
}

func (env *Env) evalBool(e *SExpr) Term { return env.boolOf(env.eval(e)) }

func (env *Env) eval(e *SExpr) TV {
	switch e.Kind {
	case "implies":
		return TV{VTerm{Implies(env.evalBool(e.L), env.evalBool(e.R))}, types.Typ[types.Bool]}
	case "forallT", "existsT":
		typ := env.typeExpr(e.Go)
		if typ == nil {
			return env.fail("quantifier type")
		}
		srt, ok := scalarSort(typ)
		if !ok {
			return env.fail("quantifier over a non-scalar type")
		}
		env.x.vc.ctr++
		bv := Term{fmt.Sprintf("%s!q%d", e.Var, env.x.vc.ctr), srt}
		saved, had := env.vars[e.Var]
		env.vars[e.Var] = TV{VTerm{bv}, typ}
		body := env.evalBool(e.Body)
		if had {
			env.vars[e.Var] = saved
		} else {
			delete(env.vars, e.Var)
		}
		q := "forall"
		if e.Kind == "existsT" {
			q = "exists"
		}
		return TV{VTerm{Term{fmt.Sprintf("(%s ((%s %s)) %s)", q, bv.S, string(srt), body.S), SBool}}, types.Typ[types.Bool]}
	case "forall", "exists":
		env.x.vc.ctr++
		bv := Term{fmt.Sprintf("%s!q%d", e.Var, env.x.vc.ctr), SInt}
		lo, _ := tvTerm(env.eval(e.Lo))
		hi, _ := tvTerm(env.eval(e.Hi))
		saved, had := env.vars[e.Var]
		env.vars[e.Var] = TV{VTerm{bv}, types.Typ[types.Int]}
		body := env.evalBool(e.Body)
		if had {
			env.vars[e.Var] = saved
		} else {
			delete(env.vars, e.Var)
		}
		rng := And(Le(lo, bv), Lt(bv, hi))
		if e.Kind == "forall" {
			return TV{VTerm{Term{fmt.Sprintf("(forall ((%s Int)) %s)", bv.S, Implies(rng, body).S), SBool}}, types.Typ[types.Bool]}
		}
		return TV{VTerm{Term{fmt.Sprintf("(exists ((%s Int)) %s)", bv.S, And(rng, body).S), SBool}}, types.Typ[types.Bool]}
	}
	saved := env.subs
	if e.Subs != nil && len(e.Subs) > 0 {
		env.subs = e.Subs
	}
	r := env.expr(e.Go)
	env.subs = saved
	return r
}

func intTV(t Term) TV  { return TV{VTerm{t}, types.Typ[types.Int]} }
func boolTV(t Term) TV { return TV{VTerm{t}, types.Typ[types.Bool]} }

func (env *Env) expr(e ast.Expr) TV {
	x := env.x
	switch e := e.(type) {
	case *ast.ParenExpr:
		return env.expr(e.X)
	case *ast.BasicLit:
		switch e.Kind {
		case token.INT:
			v := constant.MakeFromLiteral(e.Value, token.INT, 0)
			if bi, ok := constant.Val(v).(*bigInt); ok {
				return TV{VTerm{BigLit(bi)}, nil}
			}
			i, _ := constant.Int64Val(v)
			return TV{VTerm{IntLit(i)}, nil}
		case token.CHAR:
			r, _, _, err := strconv.UnquoteChar(e.Value[1:len(e.Value)-1], '\'')
			if err != nil {
				return env.fail("bad char literal %s", e.Value)
			}
			return TV{VTerm{IntLit(int64(r))}, nil}
		case token.STRING:
			s, err := strconv.Unquote(e.Value)
			if err != nil {
				return env.fail("bad string literal %s", e.Value)
			}
			return TV{VTerm{x.vc.StrLit(s)}, types.Typ[types.String]}
		}
		return env.fail("unsupported literal %s", e.Value)
	case *ast.Ident:
		return env.ident(e.Name)
	case *ast.UnaryExpr:
		v := env.expr(e.X)
		t, ok := tvTerm(v)
		if !ok {
			return env.fail("unary operand")
		}
		switch e.Op {
		case token.NOT:
			return boolTV(Not(t))
		case token.SUB:
			return TV{VTerm{Neg(t)}, v.T}
		case token.ADD:
			return v
		}
		return env.fail("unsupported unary operator %s", e.Op)
	case *ast.BinaryExpr:
		return env.binary(e)
	case *ast.SelectorExpr:
		return env.selector(e)
	case *ast.CallExpr:
		return env.call(e)
	case *ast.IndexExpr:
		base := env.expr(e.X)
		idx, _ := tvTerm(env.expr(e.Index))
		return env.indexTV(base, idx)
	case *ast.SliceExpr:
		base := env.expr(e.X)
		bt, ok := tvTerm(base)
		if ok && bt.Sort == SStr {
			lo := IntLit(0)
			hi := sLen(bt)
			if e.Low != nil {
				lo, _ = tvTerm(env.expr(e.Low))
			}
			if e.High != nil {
				hi, _ = tvTerm(env.expr(e.High))
			}
			return TV{VTerm{x.strSub(bt, lo, hi)}, types.Typ[types.String]}
		}
		if s, ok := base.V.(VSlice); ok {
			lo := IntLit(0)
			hi := s.Len
			if e.Low != nil {
				lo, _ = tvTerm(env.expr(e.Low))
			}
			if e.High != nil {
				hi, _ = tvTerm(env.expr(e.High))
			}
			return TV{VSlice{s.Back, Add(s.Off, lo), Sub(hi, lo), Sub(s.Cap, lo)}, base.T}
		}
		return env.fail("unsupported slice expression")
	case *ast.StarExpr:
		return env.expr(e.X)
	}
	return env.fail("unsupported expression %T", e)
}

func (env *Env) indexTV(base TV, idx Term) TV {
	x := env.x
	switch b := base.V.(type) {
	case VTerm:
		if b.T.Sort == SStr {
			return TV{VTerm{x.strAt(b.T, idx)}, types.Typ[types.Uint8]}
		}
		if strings.HasPrefix(string(b.T.Sort), "(Array") {
			var et types.Type
			if base.T != nil {
				if at, ok := base.T.Underlying().(*types.Array); ok {
					et = at.Elem()
				}
			}
			return TV{VTerm{Select(b.T, idx)}, et}
		}
		if base.T != nil && kindOf(base.T) == KMap {
			ms := x.eng.mapShape(base.T)
			return TV{x.mapGetVal(env.state(), ms, b.T, idx), ms.vType}
		}
	case VSlice:
		var et types.Type
		if base.T != nil {
			if st, ok := base.T.Underlying().(*types.Slice); ok {
				et = st.Elem()
			}
		}
		if et == nil {
			et = types.Typ[types.Uint8]
		}
		return TV{x.loadElem(env.fr, env.state(), b.Back, Add(b.Off, idx), et), et}
	}
	return env.fail("unsupported index base")
}

func (env *Env) ident(name string) TV {
	x := env.x
	switch name {
	case "true":
		return boolTV(TTrue)
	case "false":
		return boolTV(TFalse)
	case "nil":
		return TV{nil, nil}
	}
	if sub, ok := env.subs[name]; ok {
		return env.eval(sub)
	}
	if env.inOld && env.entryVars != nil {
		if tv, ok := env.entryVars[name]; ok {
			return tv
		}
	}
	if tv, ok := env.vars[name]; ok {
		return tv
	}
	if env.locals != nil {
		if tv, ok := env.locals(name); ok {
			return tv
		}
	}
	if gt, ok := x.eng.contracts.Ghosts[name]; ok {
		s := SInt
		var t types.Type = types.Typ[types.Int]
		if gt == "bool" {
			s = SBool
			t = types.Typ[types.Bool]
		}
		return TV{VTerm{x.heapGet(env.state(), "ghost|"+name, s)}, t}
	}
	for _, tc := range x.counters {
		if tc.Name == name {
			return intTV(x.heapGet(env.state(), "cnt|"+name, SInt))
		}
	}
	if obj := env.pkg.Scope().Lookup(name); obj != nil {
		return env.object(obj)
	}
	if obj := types.Universe.Lookup(name); obj != nil {
		if tn, ok := obj.(*types.TypeName); ok {
			return TV{nil, tn.Type()}
		}
	}
	return env.fail("unknown identifier %q", name)
}

func (env *Env) object(obj types.Object) TV {
	x := env.x
	switch o := obj.(type) {
	case *types.Const:
		switch kindOf(o.Type()) {
		case KInt:
			if bi, ok := constant.Val(constant.ToInt(o.Val())).(*bigInt); ok {
				return TV{VTerm{BigLit(bi)}, o.Type()}
			}
			i, _ := constant.Int64Val(constant.ToInt(o.Val()))
			return TV{VTerm{IntLit(i)}, o.Type()}
		case KString:
			return TV{VTerm{x.vc.StrLit(constant.StringVal(o.Val()))}, o.Type()}
		case KBool:
			return boolTV(BoolLit(constant.BoolVal(o.Val())))
		case KFloat:
			f, _ := constant.Float64Val(o.Val())
			return TV{VTerm{fpLit(f)}, o.Type()}
		}
	case *types.Var:
		if g := x.eng.globalFor(o); g != nil {
			return TV{x.loadGlobal(env.state(), g, o.Type()), o.Type()}
		}
	case *types.TypeName:
		return TV{nil, o.Type()}
	}
	return env.fail("unsupported object %s", obj.Name())
}

func (env *Env) binary(e *ast.BinaryExpr) TV {
	x := env.x
	switch e.Op {
	case token.LAND:
		return boolTV(And(env.boolOf(env.expr(e.X)), env.boolOf(env.expr(e.Y))))
	case token.LOR:
		return boolTV(Or(env.boolOf(env.expr(e.X)), env.boolOf(env.expr(e.Y))))
	}
	a := env.expr(e.X)
	b := env.expr(e.Y)
	switch e.Op {
	case token.EQL, token.NEQ:
		var eq Term
		switch {
		case a.V == nil && b.V == nil:
			eq = TTrue
		case b.V == nil:
			eq = env.isNil(a)
		case a.V == nil:
			eq = env.isNil(b)
		default:
			t := a.T
			if t == nil {
				t = b.T
			}
			if t == nil {
				t = types.Typ[types.Int]
			}
			eq = x.valuesEqual(a.V, b.V, t)
		}
		if e.Op == token.NEQ {
			eq = Not(eq)
		}
		return boolTV(eq)
	}
	at, ok1 := tvTerm(a)
	bt, ok2 := tvTerm(b)
	if !ok1 || !ok2 {
		return env.fail("unsupported operands of %s", e.Op)
	}
	rt := a.T
	if rt == nil {
		rt = b.T
	}
	if at.Sort == SFP || bt.Sort == SFP {
		toFP := func(t Term) Term {
			if t.Sort == SFP {
				return t
			}
			return app(SFP, "(_ to_fp 11 53) RNE", app("Real", "to_real", t))
		}
		A, B := toFP(at), toFP(bt)
		switch e.Op {
		case token.LSS:
			return boolTV(app(SBool, "fp.lt", A, B))
		case token.LEQ:
			return boolTV(app(SBool, "fp.leq", A, B))
		case token.GTR:
			return boolTV(app(SBool, "fp.gt", A, B))
		case token.GEQ:
			return boolTV(app(SBool, "fp.geq", A, B))
		case token.MUL:
			return TV{VTerm{app(SFP, "fp.mul RNE", A, B)}, rt}
		}
		return env.fail("unsupported float operator %s", e.Op)
	}
	switch e.Op {
	case token.ADD:
		if at.Sort == SStr {
			return TV{VTerm{x.strCat(at, bt)}, rt}
		}
		return TV{VTerm{Add(at, bt)}, rt}
	case token.SUB:
		return TV{VTerm{Sub(at, bt)}, rt}
	case token.MUL:
		return TV{VTerm{Mul(at, bt)}, rt}
	case token.QUO:
		return TV{VTerm{TDiv(at, bt)}, rt}
	case token.REM:
		return TV{VTerm{TRem(at, bt)}, rt}
	case token.LSS:
		return boolTV(Lt(at, bt))
	case token.LEQ:
		return boolTV(Le(at, bt))
	case token.GTR:
		return boolTV(Gt(at, bt))
	case token.GEQ:
		return boolTV(Ge(at, bt))
	case token.AND, token.OR, token.XOR:
		t := rt
		if t == nil || kindOf(t) != KInt {
			t = types.Typ[types.Uint32]
		}
		if _, _, _, signed := intRange(t); signed {
			t = types.Typ[types.Uint32]
		}
		if r, ok := x.bitop(e.Op, at, bt, t); ok {
			return TV{VTerm{r}, rt}
		}
	}
	return env.fail("unsupported binary operator %s", e.Op)
}

func (env *Env) isNil(a TV) Term {
	switch v := a.V.(type) {
	case VTerm:
		if v.T.Sort == SInt {
			return Eq(v.T, IntLit(0))
		}
	case VIface:
		return Eq(v.Tag, IntLit(0))
	case VSlice:
		return And(Eq(v.Back.refOrZero(), IntLit(0)), Eq(v.Cap, IntLit(0)))
	case VAddr:
		if v.Kind == AOpaque {
			return Eq(v.Opaque, IntLit(0))
		}
		return TFalse
	case VFunc:
		if v.T.Valid() {
			return Eq(v.T, IntLit(0))
		}
		return BoolLit(v.Fn == nil)
	}
	return env.fail("nil comparison on unsupported value").V.(VTerm).T
}

// fieldOf selects a (possibly promoted) field by name.
func (env *Env) fieldOf(base TV, name string) TV {
	x := env.x
	if base.T == nil {
		return env.fail("selector %s on untyped value", name)
	}
	if tp, ok := base.T.(*types.Tuple); ok {
		if vs, ok := base.V.(VStruct); ok {
			for i := 0; i < tp.Len() && i < len(vs.F); i++ {
				if name == fmt.Sprintf("r%d", i) || (tp.At(i).Name() != "" && tp.At(i).Name() == name) {
					return TV{vs.F[i], tp.At(i).Type()}
				}
			}
		}
		return env.fail("no tuple component %s", name)
	}
	obj, index, _ := types.LookupFieldOrMethod(base.T, true, env.pkg, name)
	fv, ok := obj.(*types.Var)
	if !ok || !fv.IsField() {
		return env.fail("no field %s in %s", name, base.T)
	}
	cur := base
	for _, i := range index {
		stt, key := structOf(cur.T)
		if stt == nil {
			return env.fail("selector %s: %s is not a struct", name, cur.T)
		}
		ft := stt.Field(i).Type()
		switch v := cur.V.(type) {
		case VTerm: // ref
			if kindOf(ft) == KStruct {
				cur = TV{VTerm{x.subRef(v.T, key, stt, i)}, types.NewPointer(ft)}
			} else {
				cur = TV{x.loadField(env.state(), v.T, stt, key, i), ft}
			}
		case VStruct:
			if i >= len(v.F) {
				return env.fail("selector %s: bad struct value", name)
			}
			cur = TV{v.F[i], ft}
		default:
			return env.fail("selector %s on unsupported value %T", name, cur.V)
		}
	}
	return cur
}

func (env *Env) selector(e *ast.SelectorExpr) TV {
	if id, ok := e.X.(*ast.Ident); ok {
		if _, isVar := env.vars[id.Name]; !isVar {
			if env.locals != nil {
				if _, isLoc := env.locals(id.Name); isLoc {
					goto field
				}
			}
			// imported package?
			for _, imp := range env.x.eng.allPkgs {
				if imp.Name() == id.Name && env.pkg.Scope().Lookup(id.Name) == nil {
					if obj := imp.Scope().Lookup(e.Sel.Name); obj != nil {
						return env.object(obj)
					}
				}
			}
		}
	}
field:
	base := env.expr(e.X)
	return env.fieldOf(base, e.Sel.Name)
}

func (env *Env) call(e *ast.CallExpr) TV {
	x := env.x
	// builtin spec functions
	if id, ok := e.Fun.(*ast.Ident); ok {
		args := e.Args
		switch id.Name {
		case "old":
			saved := env.inOld
			env.inOld = true
			r := env.expr(args[0])
			env.inOld = saved
			return r
		case "len":
			v := env.expr(args[0])
			switch vv := v.V.(type) {
			case VSlice:
				return intTV(vv.Len)
			case VTerm:
				if vv.T.Sort == SStr {
					return intTV(sLen(vv.T))
				}
				if v.T != nil && kindOf(v.T) == KMap {
					return intTV(x.mapLen(env.state(), x.eng.mapShape(v.T), vv.T))
				}
				if v.T != nil {
					if at, ok := v.T.Underlying().(*types.Array); ok {
						return intTV(IntLit(at.Len()))
					}
				}
			}
			return env.fail("len of unsupported value")
		case "cap":
			if vv, ok := env.expr(args[0]).V.(VSlice); ok {
				return intTV(vv.Cap)
			}
			return env.fail("cap of unsupported value")
		case "ite":
			c := env.boolOf(env.expr(args[0]))
			a := env.expr(args[1])
			b := env.expr(args[2])
			t := a.T
			if t == nil {
				t = b.T
			}
			if t == nil {
				t = types.Typ[types.Int]
			}
			return TV{x.mergeValues([]Value{a.V, b.V}, []Term{c, TTrue}, t, "ite"), t}
		case "min", "max":
			a, _ := tvTerm(env.expr(args[0]))
			b, _ := tvTerm(env.expr(args[1]))
			if id.Name == "min" {
				return intTV(Ite(Le(a, b), a, b))
			}
			return intTV(Ite(Ge(a, b), a, b))
		case "errIs":
			asIface := func(tv TV) (VIface, bool) {
				if v, ok := tv.V.(VIface); ok {
					return v, true
				}
				// a pointer-typed value (e.g. the *httpError sentinel errNotFound) used as an error
				if vt, ok := tv.V.(VTerm); ok && tv.T != nil {
					if _, isPtr := tv.T.Underlying().(*types.Pointer); isPtr {
						return VIface{Tag: Ite(Eq(vt.T, IntLit(0)), IntLit(0), IntLit(x.eng.typeTag(tv.T))), Val: vt.T}, true
					}
				}
				return VIface{}, false
			}
			a, ok1 := asIface(env.expr(args[0]))
			b, ok2 := asIface(env.expr(args[1]))
			if !ok1 || !ok2 {
				return env.fail("errIs needs error values")
			}
			return boolTV(x.errIsAt(env.st, a, b))
		case "isA":
			// isA(x, I): the dynamic type of interface value x implements interface I (x.(I) succeeds)
			a, ok := env.expr(args[0]).V.(VIface)
			t := env.typeExpr(args[1])
			if !ok || t == nil || kindOf(t) != KIface {
				return env.fail("isA(x, I)")
			}
			return boolTV(app(SBool, "implements", a.Tag, IntLit(x.implementsFacts(t))))
		case "tagof":
			// tagof(T): the type tag of the (concrete) type T
			t := env.typeExpr(args[0])
			if t == nil {
				return env.fail("tagof(T)")
			}
			return intTV(IntLit(x.eng.typeTag(t)))
		case "tagOf":
			if a, ok := env.expr(args[0]).V.(VIface); ok {
				return intTV(a.Tag)
			}
			return env.fail("tagOf needs an interface value")
		case "typeIs":
			// typeIs(x, T): dynamic type of interface value x is T
			a, ok := env.expr(args[0]).V.(VIface)
			t := env.typeExpr(args[1])
			if !ok || t == nil {
				return env.fail("typeIs(x, T)")
			}
			return boolTV(Eq(a.Tag, IntLit(x.eng.typeTag(t))))
		case "uf", "ufs":
			// uf("name", x...): uninterpreted integer function of the (interface/ref/int) arguments
			lit, ok := args[0].(*ast.BasicLit)
			if !ok {
				return env.fail("uf needs a literal name")
			}
			name, _ := strconv.Unquote(lit.Value)
			var ts []Term
			var sorts []Sort
			for _, a := range args[1:] {
				v := env.expr(a)
				switch vv := v.V.(type) {
				case VIface:
					ts = append(ts, vv.Tag, vv.Val)
					sorts = append(sorts, SInt, SInt)
				default:
					t, ok := tvTerm(v)
					if !ok {
						return env.fail("uf argument")
					}
					ts = append(ts, t)
					sorts = append(sorts, t.Sort)
				}
			}
			if id.Name == "ufs" {
				// string-valued uninterpreted function
				f := x.vc.Fun("ufs|"+name, sorts, SStr)
				return TV{VTerm{app(SStr, f, ts...)}, types.Typ[types.String]}
			}
			f := x.vc.Fun("uf|"+name, sorts, SInt)
			return TV{VTerm{app(SInt, f, ts...)}, nil}
		case "extern":
			// extern(x): the dynamic type of x is not a type of this package (or x is nil)
			a, ok := env.expr(args[0]).V.(VIface)
			if !ok {
				return env.fail("extern(x) needs an interface value")
			}
			var cs []Term
			for _, t := range x.eng.concreteTypes {
				cs = append(cs, Neq(a.Tag, IntLit(x.eng.typeTag(t))))
			}
			return boolTV(And(cs...))
		case "unbox":
			a, ok := env.expr(args[0]).V.(VIface)
			t := env.typeExpr(args[1])
			if !ok || t == nil {
				return env.fail("unbox(x, T)")
			}
			return TV{x.unbox(env.fr, env.state(), a, t), t}
		case "decval":
			s, _ := tvTerm(env.expr(args[0]))
			return intTV(x.decval(s))
		case "isdigits":
			s, _ := tvTerm(env.expr(args[0]))
			return boolTV(x.isDigits(s))
		case "ndigits":
			v, _ := tvTerm(env.expr(args[0]))
			return intTV(ndigits(v))
		case "has":
			m := env.expr(args[0])
			k := env.expr(args[1])
			mt, ok := tvTerm(m)
			if !ok || m.T == nil || kindOf(m.T) != KMap {
				return env.fail("has(m, k) needs a map")
			}
			ms := x.eng.mapShape(m.T)
			return boolTV(And(Neq(mt, IntLit(0)), Select(x.mapDom(env.state(), ms, mt), x.mapKeyTerm(k.V, ms))))
		case "hdr":
			// hdr(h, "Key"): first value of header (canonical key), "" if absent
			h, _ := tvTerm(env.expr(args[0]))
			k, _ := tvTerm(env.expr(args[1]))
			return TV{VTerm{x.hdrGet(env.state(), h, k)}, types.Typ[types.String]}
		case "canon":
			// canon(s): textproto.CanonicalMIMEHeaderKey(s)
			k, ok := tvTerm(env.expr(args[0]))
			if !ok {
				return env.fail("canon(s)")
			}
			return TV{VTerm{x.canon(k)}, types.Typ[types.String]}
		case "hdrCount":
			// hdrCount(h, "K"): len(h.Values("K"))
			h, _ := tvTerm(env.expr(args[0]))
			k, _ := tvTerm(env.expr(args[1]))
			return intTV(x.hdrCount(env.state(), h, k))
		case "hdrHas":
			h, _ := tvTerm(env.expr(args[0]))
			k, _ := tvTerm(env.expr(args[1]))
			return boolTV(x.hdrHas(env.state(), h, k))
		case "hdrN":
			h, _ := tvTerm(env.expr(args[0]))
			k, _ := tvTerm(env.expr(args[1]))
			return intTV(x.hdrCount(env.state(), h, k))
		case "hdrEq":
			// hdrEq(h1, h2): same key set and same value slices (extensional equality of the maps)
			h1, _ := tvTerm(env.expr(args[0]))
			h2, _ := tvTerm(env.expr(args[1]))
			return boolTV(x.hdrEq(env.state(), env.stateFor(args[1]), h1, h2))
		case "hdrSameExcept":
			// hdrSameExcept(h, "K1", "K2", ...): the header map h is unchanged since the pre-state
			// except possibly at the listed keys
			h, _ := tvTerm(env.expr(args[0]))
			var ks []Term
			for _, a := range args[1:] {
				k, _ := tvTerm(env.expr(a))
				ks = append(ks, x.canon(k))
			}
			os := env.old
			if os == nil {
				os = env.st
			}
			var cs []Term
			comps := map[string]Sort{"#dom": SBool, "#b": SInt, "#o": SInt, "#l": SInt, "#c": SInt}
			for _, c := range []string{"#dom", "#b", "#o", "#l", "#c"} {
				srt := arrOf(arrKV(SStr, comps[c]))
				nw := Select(x.heapGet(env.st, kHdr+c, srt), h)
				ol := Select(x.heapGet(os, kHdr+c, srt), h)
				t := ol
				for _, k := range ks {
					t = Store(t, k, Select(nw, k))
				}
				cs = append(cs, Eq(nw, t))
			}
			return boolTV(And(cs...))
		case "blen":
			b, _ := tvTerm(env.expr(args[0]))
			return intTV(x.bufLen(env.state(), b))
		case "owned":
			b, _ := tvTerm(env.expr(args[0]))
			return boolTV(x.bufOwned(env.state(), b))
		case "wasOwned":
			// ownership, in the pre-state, of the buffer denoted by the argument in the current state
			b, _ := tvTerm(env.expr(args[0]))
			os := env.old
			if os == nil {
				os = env.st
			}
			return boolTV(x.bufOwned(os, b))
		case "code":
			if a, ok := env.expr(args[0]).V.(VIface); ok {
				return intTV(x.errCode(env.state(), a))
			}
			v, _ := tvTerm(env.expr(args[0]))
			return intTV(x.connCode(env.state(), v))
		case "isConnErr":
			if a, ok := env.expr(args[0]).V.(VIface); ok {
				return boolTV(x.isConnErr(a))
			}
			return env.fail("isConnErr needs an error")
		case "isHTTPErr":
			if a, ok := env.expr(args[0]).V.(VIface); ok {
				return boolTV(Neq(x.httpRef(a), IntLit(0)))
			}
			return env.fail("isHTTPErr needs an error")
		case "httpStatus":
			if a, ok := env.expr(args[0]).V.(VIface); ok {
				return intTV(x.httpErrCode(env.state(), a))
			}
			return env.fail("httpStatus needs an error")
		case "arg":
			k, _ := tvTerm(env.expr(args[0]))
			if l, ok := k.Lit(); ok && int(l.Int64()) < len(env.atArgs) {
				return env.atArgs[l.Int64()]
			}
			return env.fail("arg(k) out of range")
		case "fin":
			f, _ := tvTerm(env.expr(args[0]))
			return boolTV(And(Not(app(SBool, "fp.isNaN", f)), Not(app(SBool, "fp.isInfinite", f))))
		}
		if p, ok := x.eng.contracts.Preds[id.Name]; ok {
			if len(args) != len(p.Params) {
				return env.fail("pred %s: wrong number of arguments", id.Name)
			}
			saved := map[string]TV{}
			had := map[string]bool{}
			var vals []TV
			for _, a := range args {
				vals = append(vals, env.expr(a))
			}
			for i, pn := range p.Params {
				if o, ok := env.vars[pn]; ok {
					saved[pn] = o
					had[pn] = true
				}
				env.vars[pn] = vals[i]
			}
			savedLocals := env.locals
			savedEntry := env.entryVars
			env.locals = nil
			env.entryVars = nil
			r := env.eval(p.Body)
			env.locals = savedLocals
			env.entryVars = savedEntry
			for _, pn := range p.Params {
				if had[pn] {
					env.vars[pn] = saved[pn]
				} else {
					delete(env.vars, pn)
				}
			}
			return r
		}
		// conversion T(x)
		if t := env.typeExpr(e.Fun); t != nil && len(args) == 1 {
			v := env.expr(args[0])
			return TV{v.V, t}
		}
		// package-level function: pure inline evaluation
		if obj := env.pkg.Scope().Lookup(id.Name); obj != nil {
			if fo, ok := obj.(*types.Func); ok {
				fn := x.eng.prog.FuncValue(fo)
				var vals []Value
				for i, a := range args {
					vals = append(vals, env.coerce(env.expr(a), fo.Type().(*types.Signature).Params().At(i).Type()))
				}
				return env.pureCall(fn, vals)
			}
		}
		return env.fail("unknown function %s", id.Name)
	}
	// conversion with qualified type, or method call
	if sel, ok := e.Fun.(*ast.SelectorExpr); ok {
		if t := env.typeExpr(e.Fun); t != nil && len(e.Args) == 1 {
			v := env.expr(e.Args[0])
			return TV{v.V, t}
		}
		recv := env.expr(sel.X)
		if recv.T == nil {
			return env.fail("method call on untyped value")
		}
		var vals []Value
		return env.methodCall(recv, sel.Sel.Name, e.Args, vals)
	}
	return env.fail("unsupported call")
}

func (env *Env) stateFor(e ast.Expr) *State {
	if c, ok := e.(*ast.CallExpr); ok {
		if id, ok := c.Fun.(*ast.Ident); ok && id.Name == "old" && env.old != nil {
			return env.old
		}
	}
	return env.state()
}

func (env *Env) coerce(v TV, t types.Type) Value {
	if v.V == nil {
		return env.x.zero(t)
	}
	if kindOf(t) == KIface && v.T != nil && kindOf(v.T) != KIface {
		return env.x.makeIface(env.fr, env.state(), v.V, v.T)
	}
	return v.V
}

func (env *Env) typeExpr(e ast.Expr) types.Type {
	switch e := e.(type) {
	case *ast.Ident:
		if _, isVar := env.vars[e.Name]; isVar {
			return nil
		}
		if obj := env.pkg.Scope().Lookup(e.Name); obj != nil {
			if tn, ok := obj.(*types.TypeName); ok {
				return tn.Type()
			}
			return nil
		}
		if obj := types.Universe.Lookup(e.Name); obj != nil {
			if tn, ok := obj.(*types.TypeName); ok {
				return tn.Type()
			}
		}
	case *ast.SelectorExpr:
		if id, ok := e.X.(*ast.Ident); ok {
			for _, imp := range env.x.eng.allPkgs {
				if imp.Name() == id.Name {
					if obj := imp.Scope().Lookup(e.Sel.Name); obj != nil {
						if tn, ok := obj.(*types.TypeName); ok {
							return tn.Type()
						}
					}
				}
			}
		}
	case *ast.StarExpr:
		if t := env.typeExpr(e.X); t != nil {
			return types.NewPointer(t)
		}
	case *ast.ParenExpr:
		return env.typeExpr(e.X)
	}
	return nil
}

// methodCall evaluates a pure method call in a specification by inlining the method body.
func (env *Env) methodCall(recv TV, name string, argExprs []ast.Expr, _ []Value) TV {
	x := env.x
	// a few well-known external pure methods
	if t, ok := tvTerm(recv); ok && recv.T != nil {
		switch typeKey(recv.T) + "." + name {
		case "*bytes.Buffer.Len":
			return intTV(x.bufLen(env.state(), t))
		case "time.Duration.Milliseconds":
			return TV{VTerm{TDiv(t, IntLit(1000000))}, types.Typ[types.Int64]}
		}
	}
	var args []TV
	for _, a := range argExprs {
		args = append(args, env.expr(a))
	}
	if iv, ok := recv.V.(VIface); ok && kindOf(recv.T) == KIface {
		// closed-world dispatch over package types
		impls := x.eng.implementers(recv.T, name)
		if len(impls) == 0 {
			return env.fail("no known implementers of %s.%s", recv.T, name)
		}
		var vals []Value
		var conds []Term
		var rt types.Type
		for _, im := range impls {
			fn := im.fn
			rv := x.unbox(env.fr, env.state(), iv, im.typ)
			vs := []Value{rv}
			sig := fn.Signature
			for i, a := range args {
				vs = append(vs, env.coerce(a, sig.Params().At(i).Type()))
			}
			r := env.pureCall(fn, vs)
			vals = append(vals, r.V)
			rt = r.T
			conds = append(conds, Eq(iv.Tag, IntLit(x.eng.typeTag(im.typ))))
		}
		return TV{x.mergeValues(vals, conds, rt, "disp"), rt}
	}
	obj, _, _ := types.LookupFieldOrMethod(recv.T, true, env.pkg, name)
	fo, ok := obj.(*types.Func)
	if !ok {
		return env.fail("no method %s on %s", name, recv.T)
	}
	fn := x.eng.prog.FuncValue(fo)
	if fn == nil {
		return env.fail("method %s has no body", name)
	}
	vs := []Value{recv.V}
	for i, a := range args {
		vs = append(vs, env.coerce(a, fo.Type().(*types.Signature).Params().At(i).Type()))
	}
	return env.pureCall(fn, vs)
}

// pureCall symbolically executes fn on a scratch copy of the state; obligations raised inside are
// discarded (the function is checked on its own).
func (env *Env) pureCall(fn *ssa.Function, args []Value) TV {
	x := env.x
	if fn == nil || len(fn.Blocks) == 0 {
		return env.fail("function has no body")
	}
	if len(x.inlineStack) > 6 {
		return env.fail("spec call nesting too deep")
	}
	st := env.state().clone()
	st.pc = TTrue
	nObl := len(x.vc.obls)
	savedNames := map[string]int{}
	for k, v := range x.vc.oblNames {
		savedNames[k] = v
	}
	fr := &Frame{fn: fn, regs: map[ssa.Value]Value{}, args: args, prefix: "spec:", entry: st}
	x.inlineStack = append(x.inlineStack, fn)
	savedSpec := x.inSpec
	x.inSpec = true
	_, res := x.execFunction(fr, st)
	x.inSpec = savedSpec
	x.inlineStack = x.inlineStack[:len(x.inlineStack)-1]
	x.vc.obls = x.vc.obls[:nObl]
	x.vc.oblNames = savedNames
	rs := fn.Signature.Results()
	if len(res) == 0 || rs.Len() == 0 {
		return env.fail("spec call to %s has no result", fn.Name())
	}
	if rs.Len() == 1 {
		return TV{res[0], rs.At(0).Type()}
	}
	return TV{VStruct{F: res}, rs}
}
