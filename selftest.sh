#!/bin/bash
# Must-fail / must-pass corpus for the machinery itself (run by hand after every engine or contract
# change; never part of a registered check, never touches /repo's working tree).
#   must-pass: every claimed property on a clean worktree of /repo HEAD
#   must-fail: (a) every seeded change under seeded/ whose meta.json says detected (or has no status),
#              (b) every "fix:" commit of /repo reverted (the defect it repaired must be reported again
#                  by at least one of the properties recorded for it in known_findings.json)
# usage: selftest.sh [pass|seeded|fixes|all]
cd "$(dirname "$0")"
what=${1:-all}
wt=/tmp/govc_selftest_$$
trap 'git -C /repo worktree remove --force $wt >/dev/null 2>&1; rm -rf $wt /tmp/govc_selftest_out_$$' EXIT
git -C /repo worktree add -q --detach $wt HEAD || exit 3
out=/tmp/govc_selftest_out_$$; mkdir -p $out
run() { # prop -> prints summary line, returns govc rc
  local extra=""; case "$1" in C11|C15|C17) extra="-sweep";; esac
  ./bin/govc -repo $wt -specs ./specs -state $PWD -out $out -prop "$1" -tier quick -noreplay -timeout 10 $extra 2>&1
}
fail=0
claimed=$(python3 -c "import json; print(' '.join(c['property_id'] for c in json.load(open('MANIFEST.json'))['checks']))")
if [ "$what" = pass ] || [ "$what" = all ]; then
  for p in $claimed; do
    o=$(run $p); rc=$?
    if [ $rc -ne 0 ]; then echo "SELFTEST FAIL must-pass $p rc=$rc"; echo "$o" | grep -E "^(VIOLATION|UNDECIDED)" | head -3; fail=1; else echo "ok   must-pass $p"; fi
  done
fi
if [ "$what" = seeded ] || [ "$what" = all ]; then
  for d in seeded/*/; do
    n=$(basename $d); p=${n%%_*}
    st=$(python3 -c "import json,sys; print(json.load(open('$d/meta.json')).get('status',''))" 2>/dev/null)
    [ "$st" = neutralised ] && { echo "skip seeded $n (neutralised)"; continue; }
    echo " $claimed " | grep -q " $p " || { echo "skip seeded $n ($p not claimed)"; continue; }
    git -C $wt apply $PWD/$d/patch.diff 2>/dev/null || { echo "SELFTEST FAIL seeded $n does not apply"; fail=1; continue; }
    o=$(run $p); rc=$?
    git -C $wt checkout -q -- .
    if echo "$o" | grep -q "^VIOLATION"; then echo "ok   must-fail seeded $n: $(echo "$o" | grep -m1 '^VIOLATION' | sed 's/.*obligation=//')"; else echo "SELFTEST FAIL seeded $n not detected (rc=$rc)"; fail=1; fi
  done
fi
if [ "$what" = fixes ] || [ "$what" = all ]; then
  python3 - <<'P' > $out/fixes.txt
import json,re
for f in json.load(open('/verif/known_findings.json'))['fixed']:
    m=re.match(r'fixed: property=(\S+) (\S+) ',f)
    if m and 'demonstration only' not in f: print(m.group(2), m.group(1))
P
  while read h props; do
    git -C $wt diff $h^ $h -- . ':!verif_contracts.go' | git -C $wt apply -R 2>/dev/null || { echo "skip fix $h (reverse patch does not apply on HEAD)"; continue; }
    hit=""
    for p in $(echo $props | tr ',' ' '); do
      echo " $claimed " | grep -q " $p " || continue
      o=$(run $p)
      if echo "$o" | grep -q "^VIOLATION"; then hit="$p: $(echo "$o" | grep -m1 '^VIOLATION' | sed 's/.*obligation=//')"; break; fi
    done
    git -C $wt checkout -q -- .
    if [ -n "$hit" ]; then echo "ok   must-fail revert $h ($hit)"; else echo "SELFTEST FAIL revert of $h ($props) not reported"; fail=1; fi
  done < $out/fixes.txt
fi
exit $fail
