#!/usr/bin/env python3
"""Generates /verif/MANIFEST.json from the table below (kept next to the checks it describes)."""
import json, subprocess

CLAIMED = {
 # id: (technique, level text, level note, design ref)
}
def claim(pid, text, note, ref):
    CLAIMED[pid] = ("contract-based deductive verification: WP/symbolic execution of go/ssa against //@ contracts, obligations discharged by z3/cvc5", text, note, ref)

NA = {}

exec(open('/verif/manifest_table.py').read())

props = [json.loads(l) for l in open('/verif/properties.jsonl')]
ids = [p['id'] for p in props]
hooks_commits = subprocess.run(['git','-C','/repo','log','--format=%h %s'],capture_output=True,text=True).stdout.splitlines()
hook_commits = [l.split()[0] for l in hooks_commits if l.split(' ',1)[1].startswith('verif:')]
checks = []
for pid in ids:
    if pid in CLAIMED:
        tech, text, note, ref = CLAIMED[pid]
        checks.append({
            "property_id": pid,
            "quick_cmd": f"./check {pid} quick",
            "thorough_cmd": f"./check {pid} thorough",
            "evidence_file": f"/verif/evidence/{pid}.json",
            "replay_cmd_template": f"./check {pid} --replay {{path}}",
            "engine": "govc",
            "level_claimed": {"category": "proof", "text": text, "design_ref": ref},
            "level_note": note,
            "technique": tech,
        })
na = [{"property_id": pid, "reason": NA[pid]} for pid in ids if pid not in CLAIMED]
m = {
 "version": 1,
 "setup_cmd": "./setup.sh",
 "hooks": {
   "guard": "verif",
   "enable": "go build -tags verif (adds only /repo/verif_contracts.go, a comment-only file holding the //@ contracts; govc loads /repo with -tags=verif)",
   "baseline_off_cmd": "cd /repo && GOPROXY=off GOFLAGS=-mod=mod go test -json -vet=off -count=1 -timeout 25m ./...",
   "source_commits": hook_commits,
   "add_only": True,
 },
 "engines": [{"name": "govc", "path": "/verif/govc", "serves_properties": sorted(CLAIMED), "kind_free_text": "verification-condition generator over go/ssa (symbolic execution with state merging, loop invariants, modular contracts) + z3 5.1 / z3 4.8.12 / cvc5 1.0 race; counterexamples replayed with go test -overlay"}],
 "checks": checks,
 "not_applicable": na,
 "notes": "Exit codes of ./check: 0 all obligations of the property discharged; 1 VIOLATION line(s); 2 UNDECIDED (cannot occur on the unchanged tree). Known findings: /verif/known_findings.json. Fix commits in /repo start with 'fix:'.",
}
json.dump(m, open('/verif/MANIFEST.json','w'), indent=1)
print("claimed", sorted(CLAIMED), "n/a", [x['property_id'] for x in na])
